"""Additional C17 corpus entries: behaviour-preserving refactorings (twins) the rules must stay silent on, and breaking
variants - also of the *refactored* shapes - (mutants) the rules must still report."""

from selftest.corpus import M, T

G = "guardrails.py"
B = "beacon.py"

# ------------------------------------------------------------------------------------------------ source anchors
_INNER = (
    "        for xorkey in find_xor_key_candidates(io.BytesIO(guarded_config)):\n"
    "            unguarded = xor(guarded_config, xorkey)\n"
    "\n"
    "            checksum = payload_checksum(unguarded) + 1\n"
    "            log.debug(\"payload checksum: 0x%08x for xorkey: %r\", checksum, xorkey)\n"
    "\n"
    "            if grconfig.checksum == checksum:\n"
    "                log.info(\"Found guardrail payload xorkey: %r\", xorkey)\n"
    "                grconfig.payload_xor_key = xorkey\n"
    "                grconfig.unmasked_beacon_config = unguarded\n"
    "                yield grconfig\n"
    "                break\n"
    "        else:\n"
    "            # No valid xor key found, so not able to unmask the beacon config\n"
    "            # but we can still return the guardrail config\n"
    "            yield grconfig\n"
)
_HEAD = (
    "        for xorkey in find_xor_key_candidates(io.BytesIO(guarded_config)):\n"
    "            unguarded = xor(guarded_config, xorkey)\n"
    "            checksum = payload_checksum(unguarded) + 1\n"
)
_ELSE = "        else:\n            yield grconfig\n"
_FROM_FILE = (
    "        for grconfig in iter_guardrail_configs_with_beacon(fxor):\n"
    "            if not grconfig.unmasked_beacon_config:\n"
    "                continue\n"
    "            bconfig = cls(grconfig.unmasked_beacon_config)\n"
    "            bconfig.guardrails = grconfig\n"
)
_SETTINGS_LOOP = (
    "            fh_guard = io.BufferedReader(io.BytesIO(unmasked_guard_config))\n"
    "            checksum = 0\n"
    "            settings: list[GuardrailSetting] = []\n"
    "            while True:\n"
    "                if fh_guard.peek(2)[:2] == b\"\\x00\\x00\":\n"
    "                    break\n"
    "                try:\n"
    "                    setting = GuardrailSetting(fh_guard)\n"
    "                except EOFError:\n"
    "                    # truncated or bogus guardrail config\n"
    "                    break\n"
    "                settings.append(setting)\n"
    "                log.debug(setting)\n"
    "                if setting.option == GuardOption.GUARD_PAYLOAD_CHECKSUM:\n"
    "                    checksum = u32be(setting.value)\n"
    "                    log.debug(\"%s = 0x%08x\", setting.option.name, checksum)\n"
)
_CTOR = (
    "            yield GuardrailMetadata(\n"
    "                beacon_config_offset=beacon_config_offset,\n"
    "                guard_config_offset=guard_config_offset,\n"
    "                checksum=checksum,\n"
    "                masked_guard_config=masked_guard_config,\n"
    "                masked_beacon_config=masked_beacon_config,\n"
    "                unmasked_guard_config=unmasked_guard_config,\n"
    "                guardrail_xor_key=xorkey,\n"
    "                beacon_xor_key=b\"\\x2e\",  # we currently only support the XOR default key\n"
    "                payload_xor_key=None,\n"
    "                unmasked_beacon_config=None,\n"
    "                settings=settings,\n"
    "            )\n"
)
_MARKER = (
    "        a, b = block[:size], block[size:]\n"
    "        if xor(a[::-1], b) in xorred_guardconfig_starts:\n"
)
_BOUNDS = (
    "            if beacon_config_offset < 0:\n"
    "                # no room for a beacon config patch area before the marker, not a valid candidate\n"
    "                offset += 1\n"
    "                continue\n"
)
_BULK = (
    "            fh.seek(beacon_config_offset)\n"
    "            masked_beacon_config = fh.read(BEACON_CONFIG_PATCH_SIZE)\n"
    "            masked_guard_config = fh.read(GUARD_PATCH_SIZE)\n"
)
_UNMASK = "            unmasked_guard_config = xor(xor(masked_guard_config, masked_beacon_config[::-1]), xorkey)\n"
_CANDS = (
    "        for chunk in iter(functools.partial(fh.read, io.DEFAULT_BUFFER_SIZE), b\"\"):\n"
    "            grams = grouper(chunk, n=keylen, fillvalue=0)\n"
    "            counter.update(bytes(gram) for gram in grams)\n"
)
_RANK = (
    "        first_count = 0\n"
    "        for key, count in counter.most_common(2):\n"
    "            if count >= first_count:\n"
    "                first_count = count\n"
    "                yield key\n"
    "            else:\n"
    "                break\n"
)
_CKSUM = (
    "    n = 0\n"
    "    for i in range(len(data)):\n"
    "        n = (n + (data[i] & 0xFF) * (i % 3 + 1)) % 99999999\n"
    "    return n\n"
)


# ================================================================================================ R1: validating iterator
def _single_yield(body):
    return _HEAD + body + "\n        yield grconfig\n"


_MATCH_BREAK = (
    "            if grconfig.checksum == checksum:\n"
    "                grconfig.payload_xor_key = xorkey\n"
    "                grconfig.unmasked_beacon_config = unguarded\n"
    "                break\n"
)
T("C17", "twin-r1-single-yield-after-loop", G, _INNER, _single_yield(_MATCH_BREAK))
T("C17", "twin-r1-mismatch-continue", G, _INNER,
  _HEAD +
  "            if checksum != grconfig.checksum:\n                continue\n"
  "            grconfig.payload_xor_key = xorkey\n            grconfig.unmasked_beacon_config = unguarded\n            yield grconfig\n            break\n" + _ELSE)
T("C17", "twin-r1-flag-temp", G, _INNER,
  _HEAD +
  "            matches = checksum == grconfig.checksum\n            if not matches:\n                continue\n"
  "            grconfig.payload_xor_key = xorkey\n            grconfig.unmasked_beacon_config = unguarded\n            yield grconfig\n            break\n" + _ELSE)
T("C17", "twin-r1-minus-one-no-temp", G, _INNER,
  "        candidates = find_xor_key_candidates(io.BytesIO(guarded_config))\n        for xorkey in candidates:\n"
  "            unguarded = xor(guarded_config, xorkey)\n"
  "            if grconfig.checksum - 1 == payload_checksum(unguarded):\n"
  "                grconfig.unmasked_beacon_config = unguarded\n                grconfig.payload_xor_key = xorkey\n                yield grconfig\n                break\n" + _ELSE)
T("C17", "twin-r1-no-unguarded-temp", G, _INNER,
  "        for xorkey in find_xor_key_candidates(io.BytesIO(guarded_config)):\n"
  "            if payload_checksum(xor(guarded_config, xorkey)) + 1 == grconfig.checksum:\n"
  "                grconfig.payload_xor_key, grconfig.unmasked_beacon_config = xorkey, xor(guarded_config, xorkey)\n                yield grconfig\n                break\n" + _ELSE)
_STORE_RESET = (
    _HEAD +
    "            grconfig.payload_xor_key = xorkey\n            grconfig.unmasked_beacon_config = unguarded\n"
    "            if grconfig.checksum == checksum:\n                yield grconfig\n                break\n"
    "{reset}" + _ELSE)
T("C17", "twin-r1-store-then-reset", G, _INNER, _STORE_RESET.format(reset="            grconfig.payload_xor_key = None\n            grconfig.unmasked_beacon_config = None\n"))
M("C17", "r1-store-then-no-reset", G, _INNER, _STORE_RESET.format(reset=""), "C17.R1")
M("C17", "r1-single-yield-store-before-test", G, _INNER,
  _single_yield("            grconfig.unmasked_beacon_config = unguarded\n            if grconfig.checksum == checksum:\n                grconfig.payload_xor_key = xorkey\n                break\n"), "C17.R1")
M("C17", "r1-flag-inverted", G, _INNER,
  _HEAD +
  "            mismatch = checksum != grconfig.checksum\n            if mismatch:\n"
  "                grconfig.payload_xor_key = xorkey\n                grconfig.unmasked_beacon_config = unguarded\n                yield grconfig\n                break\n" + _ELSE, "C17.R1")
M("C17", "r1-checksum-of-other-value", G, _INNER,
  _HEAD.replace("payload_checksum(unguarded)", "payload_checksum(guarded_config)") + _MATCH_BREAK + "\n        yield grconfig\n", "C17.R1")
M("C17", "r1-wrong-key-recorded", G, "                grconfig.payload_xor_key = xorkey\n", "                grconfig.payload_xor_key = grconfig.beacon_xor_key\n", "C17.R1")
M("C17", "r1-key-not-recorded", G, "                grconfig.payload_xor_key = xorkey\n", "", "C17.R1")
M("C17", "r1-no-break-after-yield", G, "                yield grconfig\n                break\n", "                yield grconfig\n", "C17.R1")
M("C17", "r1-metadata-alone-not-reported", G,
  "        else:\n            # No valid xor key found, so not able to unmask the beacon config\n            # but we can still return the guardrail config\n            yield grconfig\n", "", "C17.R1")
M("C17", "r1-single-yield-only-on-match", G, _INNER, _HEAD + _MATCH_BREAK.replace("                break\n", "                yield grconfig\n                break\n"), "C17.R1")
M("C17", "r1-candidates-from-masked", G, "find_xor_key_candidates(io.BytesIO(guarded_config))", "find_xor_key_candidates(io.BytesIO(grconfig.masked_beacon_config))", "C17.R1")
M("C17", "r1-xor-operands-swapped", G, "            unguarded = xor(guarded_config, xorkey)\n", "            unguarded = xor(xorkey, guarded_config)\n", "C17.R1")
M("C17", "r1-scan-prefills-config", G, "                unmasked_beacon_config=None,\n", "                unmasked_beacon_config=masked_beacon_config,\n", "C17.R1")
M("C17", "r1-beacon-key-constant", G, "        grconfig.beacon_xor_key = b\"\\x2e\"  # we currently only support the XOR default key\n", "        grconfig.beacon_xor_key = b\"\\x2f\"\n", "C17.R1")

# ================================================================================================ R2: from_file fallback
T("C17", "twin-r2-positive-if", B, _FROM_FILE,
  "        for grconfig in iter_guardrail_configs_with_beacon(fxor):\n            if grconfig.unmasked_beacon_config is None:\n                continue\n"
  "            bconfig = cls(grconfig.unmasked_beacon_config)\n            bconfig.guardrails = grconfig\n")
T("C17", "twin-r2-temp-and-alias", B, _FROM_FILE,
  "        candidates = iter_guardrail_configs_with_beacon(fxor)\n        for grconfig in candidates:\n            data = grconfig.unmasked_beacon_config\n"
  "            if not data:\n                continue\n"
  "            bconfig = cls(data)\n            bconfig.guardrails = grconfig\n")
M("C17", "r2-guard-inverted", B, "            if not grconfig.unmasked_beacon_config:\n                continue\n", "            if grconfig.unmasked_beacon_config:\n                continue\n", "C17.R2")
M("C17", "r2-guard-on-other-field", B, "            if not grconfig.unmasked_beacon_config:\n", "            if not grconfig.masked_beacon_config:\n", "C17.R2")
M("C17", "r2-guardrails-not-attached", B, "            bconfig.guardrails = grconfig\n", "", "C17.R2")
M("C17", "r2-unvalidated-iterator", B, "", "", "C17.R2", edits=[
    (B, "from dissect.cobaltstrike.guardrails import GuardrailMetadata, iter_guardrail_configs_with_beacon",
     "from dissect.cobaltstrike.guardrails import GuardrailMetadata, iter_guardrail_configs, iter_guardrail_configs_with_beacon"),
    (B, "        for grconfig in iter_guardrail_configs_with_beacon(fxor):\n", "        for grconfig in iter_guardrail_configs(fxor):\n")])

# ================================================================================================ R3: tables, checksum setting
_HELPER = (
    "def _parse_guard_settings(unmasked_guard_config: bytes) -> tuple[list[GuardrailSetting], int]:\n"
    "    fh_guard = io.BufferedReader(io.BytesIO(unmasked_guard_config))\n"
    "    checksum = 0\n"
    "    settings: list[GuardrailSetting] = []\n"
    "    while True:\n"
    "        if fh_guard.peek(2)[:2] == b\"\\x00\\x00\":\n"
    "            break\n"
    "        try:\n"
    "            setting = GuardrailSetting(fh_guard)\n"
    "        except EOFError:\n"
    "            break\n"
    "        settings.append(setting)\n"
    "        log.debug(setting)\n"
    "        if {test}:\n"
    "            checksum = {decode}\n"
    "    return settings, checksum\n\n\n"
)
_DEF = "def iter_guardrail_configs(fh: BinaryIO, xorkey: bytes = b\"\\x8a\") -> Iterator[GuardrailMetadata]:\n"


def _extracted(test, decode):
    return [(G, _DEF, _HELPER.format(test=test, decode=decode) + _DEF), (G, _SETTINGS_LOOP, "            settings, checksum = _parse_guard_settings(unmasked_guard_config)\n")]


T("C17", "twin-r3-settings-helper", G, "", "", edits=_extracted("setting.option == GuardOption.GUARD_PAYLOAD_CHECKSUM", "u32be(setting.value)"))
T("C17", "twin-r3-helper-from-bytes-mirrored", G, "", "", edits=_extracted("GuardOption.GUARD_PAYLOAD_CHECKSUM == setting.option", "int.from_bytes(setting.value[:4], \"big\")"))
M("C17", "r3-helper-little-endian", G, "", "", "C17.R3", edits=_extracted("setting.option == GuardOption.GUARD_PAYLOAD_CHECKSUM", "int.from_bytes(setting.value[:4], \"little\")"))
M("C17", "r3-helper-wrong-option", G, "", "", "C17.R3", edits=_extracted("setting.option == GuardOption.GUARD_LOCAL_IP", "u32be(setting.value)"))
M("C17", "r3-checksum-of-any-other-setting", G, "                if setting.option == GuardOption.GUARD_PAYLOAD_CHECKSUM:\n", "                if setting.option != GuardOption.GUARD_USER:\n", "C17.R3")
T("C17", "twin-r3-option-by-name", G, "                if setting.option == GuardOption.GUARD_PAYLOAD_CHECKSUM:\n", "                if setting.option.name == \"GUARD_PAYLOAD_CHECKSUM\":\n")
T("C17", "twin-r3-table-tuple", G, "", "", edits=[(G, "GUARD_CONFIG_STARTS = [\n", "GUARD_CONFIG_STARTS = (\n"), (G, "# GUARD_LOCAL_IP\n]\n", "# GUARD_LOCAL_IP\n)\n")])
_POSITIONAL = (
    "            yield GuardrailMetadata(\n                beacon_config_offset,\n                guard_config_offset,\n                masked_beacon_config,\n"
    "                masked_guard_config,\n                b\"\\x2e\",\n                xorkey,\n                unmasked_guard_config,\n                checksum,\n"
    "                {key},\n                {config},\n                settings,\n            )\n"
)
T("C17", "twin-ctor-positional", G, _CTOR, _POSITIONAL.format(key="None", config="None"))
M("C17", "ctor-positional-prefilled", G, _CTOR, _POSITIONAL.format(key="None", config="masked_beacon_config"), "C17.R1")

# ================================================================================================ R4: geometry of the scan
T("C17", "twin-r4-no-half-temps", G, _MARKER, "        if xor(block[:size][::-1], block[size : size * 2]) in xorred_guardconfig_starts:\n")
T("C17", "twin-r4-unmask-candidate-instead-of-table", G, _MARKER, "        a, b = block[:size], block[size:]\n        if xor(xor(a[::-1], b), xorkey) in GUARD_CONFIG_STARTS:\n")
T("C17", "twin-r4-size-from-table", G, "    size = len(xorred_guardconfig_starts[0])\n", "    size = len(GUARD_CONFIG_STARTS[0])\n")
T("C17", "twin-r4-offsets-via-size", G, "            guard_config_offset = offset + 6\n", "            guard_config_offset = size + offset\n")
T("C17", "twin-r4-unmask-reordered", G, _UNMASK, "            reversed_beacon = bytes(reversed(masked_beacon_config))\n            unmasked_guard_config = xor(xor(masked_guard_config, xorkey), reversed_beacon)\n")
T("C17", "twin-r4-explicit-guard-seek", G, _BULK,
  "            fh.seek(beacon_config_offset)\n            masked_beacon_config = fh.read(BEACON_CONFIG_PATCH_SIZE)\n"
  "            fh.seek(guard_config_offset)\n            masked_guard_config = fh.read(GUARD_PATCH_SIZE)\n")
T("C17", "twin-r4-bounds-mirrored", G, "            if beacon_config_offset < 0:\n", "            if not beacon_config_offset >= 0:\n")
# Not in the corpus because the *engine* (C17.R6 = effects.check_escape / loops.analyse_loop, not this module) alarms on them;
# C17.R1-R5 are silent on all of them:
#   bounds on the scan variable   `if offset < BEACON_CONFIG_PATCH_SIZE - size: offset += 1; continue`   (seek >= 0 not derived)
#   beacon seek spelled           `fh.seek(guard_config_offset - BEACON_CONFIG_PATCH_SIZE)`              (seek >= 0 not derived)
#   increment spelled             `offset = offset + 1`                                                  (loops: only AugAssign)
#   weight table                  `(1, 2, 3)[i % 3]`                                                     (IndexError not excluded)
T("C17", "twin-r4-marker-flag", G, "", "", edits=[
    (G, _MARKER + "            log.info(\"Found guardrail config at offset: %u in %r\", offset, fh)\n",
     "        a, b = block[:size], block[size:]\n        found = xor(a[::-1], b) in xorred_guardconfig_starts\n        if found:\n"
     "            log.info(\"Found guardrail config at offset: %u in %r\", offset, fh)\n")])
_HIT = (
    "            log.info(\"Found guardrail config at offset: %u in %r\", offset, fh)\n"
    "            guard_config_offset = offset + 6\n"
    "            beacon_config_offset = guard_config_offset - BEACON_CONFIG_PATCH_SIZE\n"
    + _BOUNDS + _BULK + _UNMASK + "\n" + _SETTINGS_LOOP + "\n" + _CTOR
)


def _dedent(text):
    return "".join(ln[4:] if ln.startswith("    ") else ln for ln in text.splitlines(True))


T("C17", "twin-r4-marker-early-continue", G, _MARKER + _HIT,
  "        a, b = block[:size], block[size:]\n        if xor(a[::-1], b) not in xorred_guardconfig_starts:\n            offset += 1\n            continue\n" + _dedent(_HIT))
M("C17", "r4-early-continue-without-increment-on-skip", G, _MARKER + _HIT,
  "        a, b = block[:size], block[size:]\n        if xor(a[::-1], b) not in xorred_guardconfig_starts:\n            offset += 1\n            continue\n"
  + _dedent(_HIT).replace("            offset += 1\n            continue\n", "            continue\n"), "C17.R4")
M("C17", "r4-halves-not-reversed", G, _MARKER, "        a, b = block[:size], block[size:]\n        if xor(a, b) in xorred_guardconfig_starts:\n", "C17.R4")
M("C17", "r4-key-applied-twice", G, _MARKER, "        a, b = block[:size], block[size:]\n        if xor(xor(a[::-1], b), xorkey) in xorred_guardconfig_starts:\n", "C17.R4")
M("C17", "r4-guard-offset-wrong", G, "            guard_config_offset = offset + 6\n", "            guard_config_offset = offset + 12\n", "C17.R4")
M("C17", "r4-window-size", G, "        block = fh.read(size * 2)\n", "        block = fh.read(size)\n", "C17.R4")
M("C17", "r4-scan-step-two", G, "            )\n        offset += 1\n", "            )\n        offset += 2\n", "C17.R4")
M("C17", "r4-bounds-skip-admissible", G, _BOUNDS, "            if offset <= BEACON_CONFIG_PATCH_SIZE - size:\n                offset += 1\n                continue\n", "C17.R4")
M("C17", "r4-guard-block-not-behind-beacon-block", G, _BULK,
  "            fh.seek(beacon_config_offset)\n            masked_beacon_config = fh.read(BEACON_CONFIG_PATCH_SIZE)\n"
  "            fh.seek(offset)\n            masked_guard_config = fh.read(GUARD_PATCH_SIZE)\n", "C17.R4")
M("C17", "r4-guard-block-size", G, "            masked_guard_config = fh.read(GUARD_PATCH_SIZE)\n", "            masked_guard_config = fh.read(BEACON_CONFIG_PATCH_SIZE)\n", "C17.R4")
M("C17", "r4-beacon-block-at-guard-offset", G, "            fh.seek(beacon_config_offset)\n", "            fh.seek(guard_config_offset)\n", "C17.R4")
M("C17", "r4-unmask-key-missing", G, _UNMASK, "            unmasked_guard_config = xor(masked_guard_config, masked_beacon_config[::-1])\n", "C17.R4")
M("C17", "r4-reported-beacon-offset", G, "                beacon_config_offset=beacon_config_offset,\n", "                beacon_config_offset=offset,\n", "C17.R4")

# ================================================================================================ R5: candidates, checksum
_CANDS_WALRUS = (
    "        while (chunk := fh.read({size})) != b\"\":\n"
    "            counter.update(map(bytes, grouper(chunk, {n}, fillvalue=0)))\n"
)
_RANK_UNROLLED = (
    "        ranked = counter.most_common({k})\n        if ranked:\n            yield ranked[0][0]\n"
    "        if len(ranked) > 1 and ranked[1][1] >= ranked[0][1]:\n            yield ranked[1][0]\n"
)
T("C17", "twin-r5-walrus-map-unrolled", G, "", "", edits=[(G, _CANDS, _CANDS_WALRUS.format(size="io.DEFAULT_BUFFER_SIZE", n="keylen")), (G, _RANK, _RANK_UNROLLED.format(k="2"))])
M("C17", "r5-walrus-small-chunks", G, "", "", "C17.R5", edits=[(G, _CANDS, _CANDS_WALRUS.format(size="4096", n="keylen")), (G, _RANK, _RANK_UNROLLED.format(k="2"))])
M("C17", "r5-walrus-fixed-ngram", G, "", "", "C17.R5", edits=[(G, _CANDS, _CANDS_WALRUS.format(size="io.DEFAULT_BUFFER_SIZE", n="4")), (G, _RANK, _RANK_UNROLLED.format(k="2"))])
M("C17", "r5-unrolled-top-one-only", G, "", "", "C17.R5", edits=[(G, _CANDS, _CANDS_WALRUS.format(size="io.DEFAULT_BUFFER_SIZE", n="keylen")), (G, _RANK, _RANK_UNROLLED.format(k="1"))])
T("C17", "twin-r5-range-arith", G, "    for keylen in range(2, 257):\n", "    for keylen in range(2, 256 + 1):\n")
T("C17", "twin-r5-most-common-slice", G, "counter.most_common(2):", "counter.most_common()[:2]:")
M("C17", "r5-range-starts-at-one", G, "    for keylen in range(2, 257):\n", "    for keylen in range(1, 257):\n", "C17.R5")
M("C17", "r5-range-step-two", G, "    for keylen in range(2, 257):\n", "    for keylen in range(2, 257, 2):\n", "C17.R5")
_ENUM = "    n = 0\n    for i, byte in enumerate(data{start}):\n        n = (n + (byte & 0xFF) * ({w})) % {m}\n    return n\n"
T("C17", "twin-r5-enumerate", G, _CKSUM, _ENUM.format(start="", w="i % 3 + 1", m="99999999"))
T("C17", "twin-r5-enumerate-weight-first", G, _CKSUM, "    n = 0\n    for i, byte in enumerate(data, 0):\n        weight = 1 + i % 3\n        n = (weight * byte + n) % 99999999\n    return n\n")
T("C17", "twin-r5-sum-genexp", G, _CKSUM, "    return sum((byte & 0xFF) * (i % 3 + 1) for i, byte in enumerate(data)) % 99999999\n")
T("C17", "twin-r5-reduce-at-the-end", G, _CKSUM, "    total = 0\n    for i in range(0, len(data)):\n        total += data[i] * (i % 3 + 1)\n    return total % 99999999\n")
M("C17", "r5-enumerate-from-one", G, _CKSUM, _ENUM.format(start=", 1", w="i % 3 + 1", m="99999999"), "C17.R5")
M("C17", "r5-enumerate-weights", G, _CKSUM, _ENUM.format(start="", w="i % 3", m="99999999"), "C17.R5")
M("C17", "r5-enumerate-modulus", G, _CKSUM, _ENUM.format(start="", w="i % 3 + 1", m="100000000"), "C17.R5")
M("C17", "r5-sum-genexp-weights", G, _CKSUM, "    return sum((byte & 0xFF) * (i % 4 + 1) for i, byte in enumerate(data)) % 99999999\n", "C17.R5")
M("C17", "r5-skips-first-byte", G, _CKSUM, "    n = 0\n    for i in range(1, len(data)):\n        n = (n + (data[i] & 0xFF) * (i % 3 + 1)) % 99999999\n    return n\n", "C17.R5")
M("C17", "r5-weight-table-wrong", G, _CKSUM, "    n = 0\n    for i in range(len(data)):\n        n = (n + (data[i] & 0xFF) * (1, 2, 4)[i % 3]) % 99999999\n    return n\n", "C17.R5")

# ================================================================================================ helpers returning tuples / filtering generators
_DEF_WB = "def iter_guardrail_configs_with_beacon(fh: BinaryIO) -> Iterator[GuardrailMetadata]:\n"
_PAIR_HELPER = (
    "def _find_payload_xor_key(grconfig, guarded_config):\n"
    "    for xorkey in find_xor_key_candidates(io.BytesIO(guarded_config)):\n"
    "        unguarded = xor(guarded_config, xorkey)\n"
    "        checksum = payload_checksum(unguarded) + 1\n"
    "        if grconfig.checksum == checksum:\n"
    "            return xorkey, unguarded\n"
    "    return None, None\n\n\n"
)
_LAST_HELPER = (
    "def _find_payload_xor_key(grconfig, guarded_config):\n"
    "    best = (None, None)\n"
    "    for xorkey in find_xor_key_candidates(io.BytesIO(guarded_config)):\n"
    "        unguarded = xor(guarded_config, xorkey)\n"
    "        best = (xorkey, unguarded)\n"
    "        if grconfig.checksum == payload_checksum(unguarded) + 1:\n"
    "            break\n"
    "    return best\n\n\n"
)
_PAIR_USE = "        grconfig.payload_xor_key, grconfig.unmasked_beacon_config = _find_payload_xor_key(grconfig, guarded_config)\n        yield grconfig\n"
T("C17", "twin-r1-helper-returns-pair", G, "", "", edits=[(G, _DEF_WB, _PAIR_HELPER + _DEF_WB), (G, _INNER, _PAIR_USE)])
M("C17", "r1-helper-returns-last-candidate", G, "", "", "C17.R1", edits=[(G, _DEF_WB, _LAST_HELPER + _DEF_WB), (G, _INNER, _PAIR_USE)])

_AREA_HELPER = (
    "def _read_protected_area(fh, start, key):\n"
    "    fh.seek(start)\n"
    "    masked_beacon = fh.read(BEACON_CONFIG_PATCH_SIZE)\n"
    "    masked_guard = fh.read(GUARD_PATCH_SIZE)\n"
    "    return masked_beacon, masked_guard, xor(xor(masked_guard, masked_beacon{rev}), key)\n\n\n"
    "def _is_marker(block, size, markers):\n"
    "    head, tail = block[:size], block[size:]\n"
    "    return xor(head[::-1], tail) in markers\n\n\n"
)
_AREA_USE = "            masked_beacon_config, masked_guard_config, unmasked_guard_config = _read_protected_area(fh, {start}, xorkey)\n"


def _area(rev, start):
    return [(G, _DEF, _AREA_HELPER.format(rev=rev) + _DEF), (G, _BULK + _UNMASK, _AREA_USE.format(start=start)),
            (G, _MARKER, "        if _is_marker(block, size, xorred_guardconfig_starts):\n")]


T("C17", "twin-r4-area-and-marker-helpers", G, "", "", edits=_area("[::-1]", "beacon_config_offset"))
M("C17", "r4-area-helper-not-reversed", G, "", "", "C17.R4", edits=_area("", "beacon_config_offset"))
M("C17", "r4-area-helper-wrong-start", G, "", "", "C17.R4", edits=_area("[::-1]", "guard_config_offset"))

_FF_TAIL = (
    "            bconfig.xorkey = grconfig.beacon_xor_key\n"
    "            bconfig.pe_compile_stamp, bconfig.pe_export_stamp = pe.find_compile_stamps(fxor)\n"
    "            bconfig.architecture = pe.find_architecture(fxor)\n"
    "            return bconfig\n"
)
_FF_HELPER = (
    "    @classmethod\n    def _from_guardrail_candidate(cls, grconfig, fxor):\n"
    "        bconfig = cls(grconfig.unmasked_beacon_config)\n        bconfig.guardrails = grconfig\n"
    "        bconfig.xorkey = grconfig.beacon_xor_key\n"
    "        bconfig.pe_compile_stamp, bconfig.pe_export_stamp = pe.find_compile_stamps(fxor)\n"
    "        bconfig.architecture = pe.find_architecture(fxor)\n        return bconfig\n\n"
)


def _filtered(field):
    return [(B, _FROM_FILE + _FF_TAIL,
             f"        usable = (g for g in iter_guardrail_configs_with_beacon(fxor) if g.{field})\n"
             "        for grconfig in usable:\n            return cls._from_guardrail_candidate(grconfig, fxor)\n"),
            (B, "    @classmethod\n    def from_path(", _FF_HELPER + "    @classmethod\n    def from_path(")]


T("C17", "twin-r2-filtering-genexp-and-helper", B, "", "", edits=_filtered("unmasked_beacon_config"))
M("C17", "r2-filtering-genexp-other-field", B, "", "", "C17.R2", edits=_filtered("masked_beacon_config"))

# n-grams cut by slicing instead of utils.grouper: the counting is not located any more (undecided), the key lengths still are
_SLICED = "            counter.update(chunk[i : i + keylen].ljust(keylen, b\"\\x00\") for i in range(0, len(chunk), keylen))\n"
_GRAMS = "            grams = grouper(chunk, n=keylen, fillvalue=0)\n            counter.update(bytes(gram) for gram in grams)\n"
T("C17", "twin-r5-ngrams-by-slicing", G, _GRAMS, _SLICED)
M("C17", "r5-ngrams-by-slicing-short-range", G, "", "", "C17.R5", edits=[(G, _GRAMS, _SLICED), (G, "    for keylen in range(2, 257):\n", "    for keylen in range(2, 200):\n")])

# ================================================================================================ R2: how the candidate is drawn (for / next), exhaustive search
_FF_ALL = _FROM_FILE + _FF_TAIL
_FF_RAISE = "\n        raise ValueError(\"No valid Beacon configuration found\")\n"
_FF_FLAT = (
    "        bconfig = cls(grconfig.unmasked_beacon_config)\n        bconfig.guardrails = grconfig\n"
    "        bconfig.xorkey = grconfig.beacon_xor_key\n"
    "        bconfig.pe_compile_stamp, bconfig.pe_export_stamp = pe.find_compile_stamps(fxor)\n"
    "        bconfig.architecture = pe.find_architecture(fxor)\n        return bconfig\n"
)


def _next_first(source, guard):
    return [(B, _FF_ALL + _FF_RAISE, f"        grconfig = next({source}, None)\n        if {guard}:\n            raise ValueError(\"No valid Beacon configuration found\")\n" + _FF_FLAT)]


# the search loop as "first element of the filtered iterator" (guard clause + straight-line tail), in several spellings
T("C17", "twin-r2-next-filter-lambda", B, "", "", edits=_next_first("filter(lambda g: g.unmasked_beacon_config, iter_guardrail_configs_with_beacon(fxor))", "grconfig is None"))
T("C17", "twin-r2-next-iter-listcomp-not", B, "", "", edits=_next_first("iter([g for g in iter_guardrail_configs_with_beacon(fxor) if g.unmasked_beacon_config is not None and g.unmasked_beacon_config])", "not grconfig"))
M("C17", "r2-next-filter-other-field", B, "", "", "C17.R2", edits=_next_first("(g for g in iter_guardrail_configs_with_beacon(fxor) if g.masked_beacon_config)", "grconfig is None"))
# only the first candidate of the (unfiltered) validating iterator is looked at: a metadata-only candidate ends the search
M("C17", "r2-next-unfiltered-first-only", B, "", "", "C17.R2", edits=_next_first("iter_guardrail_configs_with_beacon(fxor)", "grconfig is None or not grconfig.unmasked_beacon_config"))
M("C17", "r2-break-on-metadata-only", B, "            if not grconfig.unmasked_beacon_config:\n                continue\n            bconfig = cls(grconfig",
  "            if not grconfig.unmasked_beacon_config:\n                break\n            bconfig = cls(grconfig", "C17.R2")
# loop that only searches, construction behind it
T("C17", "twin-r2-for-break-then-build", B, "", "", edits=[(B, _FF_ALL + _FF_RAISE,
  "        for grconfig in iter_guardrail_configs_with_beacon(fxor):\n            if grconfig.unmasked_beacon_config:\n                break\n"
  "        else:\n            raise ValueError(\"No valid Beacon configuration found\")\n" + _FF_FLAT)])
# result variable of the search (the draw of the constructed candidate is then not located: DOM decided through the copy, rest undecided)
T("C17", "twin-r2-search-result-variable", B, "", "", edits=[(B, _FF_ALL + _FF_RAISE,
  "        found = None\n        for candidate in iter_guardrail_configs_with_beacon(fxor):\n            if candidate.unmasked_beacon_config:\n                found = candidate\n                break\n"
  "        if found is None:\n            raise ValueError(\"No valid Beacon configuration found\")\n" + _FF_FLAT.replace("grconfig", "found"))])
M("C17", "r2-search-result-variable-unchecked", B, "", "", "C17.R2", edits=[(B, _FF_ALL + _FF_RAISE,
  "        found = None\n        for candidate in iter_guardrail_configs_with_beacon(fxor):\n            if candidate.masked_beacon_config:\n                found = candidate\n                break\n"
  "        if found is None:\n            raise ValueError(\"No valid Beacon configuration found\")\n" + _FF_FLAT.replace("grconfig", "found"))])

# ================================================================================================ R3: nothing keeps the settings loop from the checksum setting
_WT = "            while True:\n                if fh_guard.peek(2)[:2] == b\"\\x00\\x00\":\n"
_APPEND = "                settings.append(setting)\n"
M("C17", "r3-settings-loop-range-of-marker-table", G, _WT, "            for _ in range(len(GUARD_CONFIG_STARTS)):\n                if fh_guard.peek(2)[:2] == b\"\\x00\\x00\":\n", "C17.R3")
M("C17", "r3-settings-break-at-four", G, _APPEND, _APPEND + "                if len(settings) >= 4:\n                    break\n", "C17.R3")
M("C17", "r3-settings-counter-not-equal", G, "", "", "C17.R3", edits=[
    (G, "            checksum = 0\n            settings: list[GuardrailSetting] = []\n" + _WT,
     "            checksum = 0\n            parsed = 0\n            settings: list[GuardrailSetting] = []\n            while parsed != len(GUARD_CONFIG_STARTS):\n                if fh_guard.peek(2)[:2] == b\"\\x00\\x00\":\n"),
    (G, _APPEND, _APPEND + "                parsed += 1\n")])
# property-preserving bounds: one setting per GuardOption member (5) / generous
T("C17", "twin-r3-settings-bound-per-option", G, _WT, "            while len(settings) <= len(GUARD_CONFIG_STARTS):\n                if fh_guard.peek(2)[:2] == b\"\\x00\\x00\":\n")
T("C17", "twin-r3-settings-for-range-generous", G, _WT, "            for _ in range(GUARD_PATCH_SIZE // 6):\n                if fh_guard.peek(2)[:2] == b\"\\x00\\x00\":\n")
# a bound the rule cannot read (not a constant): undecided
T("C17", "twin-r3-settings-bound-opaque", G, _WT, "            while len(settings) < len(unmasked_guard_config):\n                if fh_guard.peek(2)[:2] == b\"\\x00\\x00\":\n")

# ================================================================================================ R3: marker table generated at import time
# (wave 4: the table is folded as a module-level constant - enum members of the parsed definition, comprehensions over
# constant tables, struct.pack / int.to_bytes / bytes / join on constants; straight-line module-level rebinding, += and
# append / extend - also as the single statement of a for loop - as expressions over the previous binding; a table built
# by package helpers is undecided)
_TABLE = (
    "GUARD_CONFIG_STARTS = [\n"
    "    b\"\\x00\\x05\\x00\\x01\\x00\\x02\",  # GUARD_USER\n"
    "    b\"\\x00\\x06\\x00\\x01\\x00\\x02\",  # GUARD_COMPUTER\n"
    "    b\"\\x00\\x07\\x00\\x01\\x00\\x02\",  # GUARD_DOMAIN\n"
    "    b\"\\x00\\x08\\x00\\x02\\x00\\x04\",  # GUARD_LOCAL_IP\n"
    "]\n"
)
_ENUMS = "GuardOption = c_guardrails.GuardOption\n"


def _generated(code, imp=""):
    return [(G, "import logging\n", "import logging\n" + imp), (G, _TABLE, ""), (G, _ENUMS, _ENUMS + "SettingsType = c_guardrails.SettingsType\n" + code)]


_BY_DICT = (
    "_START_OF = {{\n"
    "    GuardOption.GUARD_USER: (SettingsType.TYPE_SHORT, 2),\n"
    "    GuardOption.GUARD_COMPUTER: (SettingsType.TYPE_SHORT, 2),\n"
    "    GuardOption.GUARD_DOMAIN: (SettingsType.TYPE_SHORT, 2),\n"
    "    GuardOption.GUARD_LOCAL_IP: (SettingsType.{ip}, 4),\n"
    "}}\n"
    "GUARD_CONFIG_STARTS = [pack(\"{fmt}\", opt, typ, size) for opt, (typ, size) in _START_OF.items()]\n"
)
T("C17", "twin-r3-table-packed-from-dict", G, "", "", edits=_generated(_BY_DICT.format(ip="TYPE_INT", fmt=">3H"), "from struct import pack\n"))
M("C17", "r3-table-packed-wrong-type", G, "", "", "C17.R3", edits=_generated(_BY_DICT.format(ip="TYPE_SHORT", fmt=">3H"), "from struct import pack\n"))
M("C17", "r3-table-packed-little-endian", G, "", "", "C17.R3", edits=_generated(_BY_DICT.format(ip="TYPE_INT", fmt="<3H"), "from struct import pack\n"))
_BY_ENUM = (
    "_WIDE = (GuardOption.GUARD_LOCAL_IP,)\n"
    "GUARD_CONFIG_STARTS = [\n"
    "    b\"\".join(int(x).to_bytes(2, \"big\") for x in (o, SettingsType.TYPE_INT if o in _WIDE else SettingsType.TYPE_SHORT, 4 if o in _WIDE else 2))\n"
    "    for o in GuardOption\n"
    "    if o {cond}\n"
    "]\n"
)
T("C17", "twin-r3-table-from-enum-iteration", G, "", "", edits=_generated(_BY_ENUM.format(cond="!= GuardOption.GUARD_PAYLOAD_CHECKSUM")))
# GUARD_DOMAIN-first configurations are no longer found
M("C17", "r3-table-from-enum-iteration-drops-domain", G, "", "", "C17.R3", edits=_generated(_BY_ENUM.format(cond="not in (GuardOption.GUARD_PAYLOAD_CHECKSUM, GuardOption[\"GUARD_DOMAIN\"])")))
_BY_CONCAT = (
    "_SHORT_2 = bytes([0, SettingsType.TYPE_SHORT.value, 0, 2])\n"
    "GUARD_CONFIG_STARTS = [bytes([0, v]) + _SHORT_2 for v in range(GuardOption.GUARD_USER.value, GuardOption.GUARD_DOMAIN.value + {k})]\n"
    "GUARD_CONFIG_STARTS = GUARD_CONFIG_STARTS + [struct.pack(\">HHH\", GuardOption(8), SettingsType(2), 4)]\n"
)
# rebound container: the second binding is folded over the first
T("C17", "twin-r3-table-rebound-concat", G, "", "", edits=_generated(_BY_CONCAT.format(k="1"), "import struct\n"))
_BY_LOOP = (
    "GUARD_CONFIG_STARTS = []\n"
    "for _opt, _typ, _len in ((5, 1, 2), (6, 1, 2), (7, 1, 2), (8, 2, 4)):\n"
    "    GUARD_CONFIG_STARTS.append(struct.pack(\">HHH\", _opt, _typ, _len))\n"
)
# built by an append loop == comprehension over the constant tuple
T("C17", "twin-r3-table-append-loop", G, "", "", edits=_generated(_BY_LOOP, "import struct\n"))
M("C17", "r3-table-append-loop-wrong-length", G, "", "", "C17.R3", edits=_generated(_BY_LOOP.replace("(8, 2, 4)", "(8, 2, 2)"), "import struct\n"))
M("C17", "r3-table-rebound-concat-wrong-option", G, "", "", "C17.R3", edits=_generated(_BY_CONCAT.format(k="1").replace("GuardOption(8)", "GuardOption(9)"), "import struct\n"))
# serialised by package helpers (they would have to be interpreted): not folded, undecided
_BY_HELPER = "GUARD_CONFIG_STARTS = [p16be(o) + p16be(t) + p16be(n) for o, t, n in ((5, 1, 2), (6, 1, 2), (7, 1, 2), (8, 2, 4))]\n"
T("C17", "twin-r3-table-by-package-helper", G, "", "", edits=_generated(_BY_HELPER) + [(G, "import grouper, u32be, xor\n", "import grouper, p16be, u32be, xor\n")])
_BY_RANGE = (
    "GUARD_CONFIG_STARTS = [bytes([0, v, 0, 1, 0, 2]) for v in range(GuardOption.GUARD_USER.value, GuardOption.GUARD_DOMAIN.value + {k})] + [\n"
    "    struct.Struct(\">HHH\").pack(GuardOption(8), SettingsType(2), 4)\n"
    "]\n"
)
T("C17", "twin-r3-table-range-of-option-values", G, "", "", edits=_generated(_BY_RANGE.format(k="1"), "import struct\n"))
M("C17", "r3-table-range-of-option-values-short", G, "", "", "C17.R3", edits=_generated(_BY_RANGE.format(k="0"), "import struct\n"))


# ------------------------------------------------------------------------------------------------ R7: raw or XorEncoded
_FALLBACK = (
    "        try:\n"
    "            fxor = XorEncodedFile.from_file(fobj)\n"
    "        except ValueError:\n"
    "            fxor = fobj\n"
    "        for grconfig in iter_guardrail_configs_with_beacon(fxor):\n"
)
_FOR_GR = "        for grconfig in iter_guardrail_configs_with_beacon(fxor):\n"
_FIRST_LOOP = "        for config_block, extra_info in iter_beacon_config_blocks(fobj, xor_keys=xor_keys, all_xor_keys=all_xor_keys):\n"
# breaking: the fallback scans the raw file object (no attempt at all)
M("C17", "r7-fallback-scans-raw-file", B, _FALLBACK, "        fxor = fobj\n" + _FOR_GR, "C17.R7")
M("C17", "r7-fallback-iterates-raw-parameter", B, _FOR_GR, "        for grconfig in iter_guardrail_configs_with_beacon(fobj):\n", "C17.R7")
# breaking: the view is opened but the raw object is what is scanned
M("C17", "r7-view-opened-but-not-used", B, _FALLBACK,
  "        try:\n            XorEncodedFile.from_file(fobj)\n        except ValueError:\n            pass\n        fxor = fobj\n" + _FOR_GR, "C17.R7")
# breaking: the attempt depends on a flag that is constant wherever the fallback is reached (set only on the returning path)
M("C17", "r7-attempt-behind-dead-flag", B, "", "", "C17.R7", edits=[
    (B, _FIRST_LOOP, "        seen_encoded = False\n" + _FIRST_LOOP + "            seen_encoded = bool(extra_info[\"xorencoded\"])\n"),
    (B, _FALLBACK, "        fxor = fobj\n        if seen_encoded:\n            try:\n                fxor = XorEncodedFile.from_file(fobj)\n            except ValueError:\n                pass\n" + _FOR_GR),
])
# breaking: the attempt depends on a caller option that does not look at the payload
M("C17", "r7-attempt-only-with-all-xor-keys", B, _FALLBACK,
  "        fxor = fobj\n        if all_xor_keys:\n            try:\n                fxor = XorEncodedFile.from_file(fobj)\n            except ValueError:\n                pass\n" + _FOR_GR, "C17.R7")
# twins: default first and overwrite on success; flag for "decoded"; attempt hoisted to the top of the function
T("C17", "twin-r7-default-then-overwrite", B, _FALLBACK,
  "        fxor = fobj\n        try:\n            fxor = XorEncodedFile.from_file(fobj)\n        except ValueError:\n            pass\n" + _FOR_GR)
T("C17", "twin-r7-done-flag", B, _FALLBACK,
  "        decoded = False\n        try:\n            view = XorEncodedFile.from_file(fobj)\n            decoded = True\n        except ValueError:\n            pass\n"
  "        if decoded:\n            fxor = view\n        else:\n            fxor = fobj\n" + _FOR_GR)
T("C17", "twin-r7-try-else", B, _FALLBACK,
  "        try:\n            view = XorEncodedFile.from_file(fobj)\n        except ValueError:\n            fxor = fobj\n        else:\n            fxor = view\n" + _FOR_GR)
# the attempt is selected by a predicate that looks at the payload: not decided (silent)
T("C17", "twin-r7-attempt-behind-payload-predicate", B, _FALLBACK,
  "        fxor = fobj\n        if fobj.read(4) != b\"MZ\\x90\\x00\":\n            try:\n                fxor = XorEncodedFile.from_file(fobj)\n            except ValueError:\n                pass\n" + _FOR_GR)


# ------------------------------------------------------------------- R4: windows cut out of bulk-read chunks by a generator
_SCAN_HEAD = (
    "    offset = 0\n"
    "    while True:\n"
    "        fh.seek(offset)\n"
    "        block = fh.read(size * 2)\n"
    "        if not block:\n"
    "            break\n"
    "        a, b = block[:size], block[size:]\n"
)
_SCAN_DEF = "def iter_guardrail_configs(fh: BinaryIO, xorkey: bytes = b\"\\x8a\") -> Iterator[GuardrailMetadata]:\n"
_WINDOWS = (
    "CHUNK = 1 << 15\n\n\n"
    "def _windows(stream, width):\n"
    "    start = 0\n"
    "    while True:\n"
    "        stream.seek(start)\n"
    "        data = stream.read({read})\n"
    "        if not data:\n"
    "            break\n"
    "        for i in range({positions}):\n"
    "            yield start + i, data[i : i + width], {second}\n"
    "        start += {stride}\n\n\n"
)


def _chunked(read="CHUNK + 2 * width - 1", positions="min(len(data), CHUNK)", second="data[i + width : i + 2 * width]", stride="CHUNK"):
    return [
        (G, _SCAN_DEF, _WINDOWS.format(read=read, positions=positions, second=second, stride=stride) + _SCAN_DEF),
        (G, _SCAN_HEAD, "    for offset, a, b in _windows(fh, size):\n"),
        (G, "                offset += 1\n                continue\n", "                continue\n"),
        (G, "            )\n        offset += 1\n", "            )\n"),
    ]


T("C17", "twin-r4-chunked-generator-scan", G, "", "", edits=_chunked())
T("C17", "twin-r4-chunked-generator-scan-wider-lookahead", G, "", "", edits=_chunked(read="CHUNK + 2 * width", second="bytes(memoryview(data)[i + width : i + width * 2])"))
# breaking: the look-ahead covers one window only / nothing: the second half is truncated for the last offsets of a chunk
M("C17", "r4-chunked-lookahead-one-window-short", G, "", "", "C17.R4", edits=_chunked(read="CHUNK + width - 1"))
M("C17", "r4-chunked-no-lookahead", G, "", "", "C17.R4", edits=_chunked(read="CHUNK", positions="len(data)"))
# breaking: the chunks advance further than the positions tested / windows not adjacent
M("C17", "r4-chunked-stride-skips-offsets", G, "", "", "C17.R4", edits=_chunked(stride="CHUNK + width"))
M("C17", "r4-chunked-second-window-shifted", G, "", "", "C17.R4", edits=_chunked(second="data[i + width + 1 : i + 2 * width + 1]"))


# ------------------------------------------- R3 (DOM): what is parsed out of one guard configuration is reported for it only
_SCAN_TOP = "    offset = 0\n    while True:\n        fh.seek(offset)\n"
_INIT_CK = "            checksum = 0\n"
_INIT_SET = "            settings: list[GuardrailSetting] = []\n"
_YIELD_END = "                settings=settings,\n            )\n"
# breaking: the settings list is created once for the whole scan - the settings of all candidates pile up in every report
M("C17", "r3-settings-list-shared-by-all-candidates", G, "", "", "C17.R3",
  edits=[(G, _SCAN_TOP, "    settings: list[GuardrailSetting] = []\n" + _SCAN_TOP), (G, _INIT_SET, "")])
# breaking: the checksum is reset only when the candidate before it was rejected by the bounds test (reset on one path only);
# it reaches the report through a copy
M("C17", "r3-checksum-reset-on-one-path-only", G, "", "", "C17.R3",
  edits=[(G, _SCAN_TOP, "    checksum = 0\n" + _SCAN_TOP), (G, _INIT_CK, ""),
         (G, "                offset += 1\n                continue\n", "                offset += 1\n                checksum = 0\n                continue\n"),
         (G, "            yield GuardrailMetadata(\n", "            stored = checksum\n            yield GuardrailMetadata(\n"),
         (G, "                checksum=checksum,\n", "                checksum=stored,\n")])
# breaking: the settings accumulate (`settings = settings + [..]` is not a reset)
M("C17", "r3-settings-concatenated-never-reset", G, "", "", "C17.R3",
  edits=[(G, _SCAN_TOP, "    settings: list[GuardrailSetting] = []\n" + _SCAN_TOP), (G, _INIT_SET, ""),
         (G, "                settings.append(setting)\n", "                settings = settings + [setting]\n")])
# twins: reset after the report instead of before the parse; both initialised by one tuple assignment
T("C17", "twin-r3-checksum-reset-after-report", G, "", "", edits=[(G, _SCAN_TOP, "    checksum = 0\n" + _SCAN_TOP), (G, _INIT_CK, ""), (G, _YIELD_END, _YIELD_END + "            checksum = 0\n")])
T("C17", "twin-r3-tuple-initialisation", G, "", "", edits=[(G, _INIT_CK, ""), (G, _INIT_SET, "            checksum, settings = 0, []\n")])
T("C17", "twin-r3-checksum-if-else", G, "", "", edits=[(G, _INIT_CK, "            checksum = 0\n            found_checksum = False\n"),
  (G, "                    checksum = u32be(setting.value)\n", "                    checksum = u32be(setting.value)\n                    found_checksum = True\n")])

# ------------------------------------------------ R5 (TAINT): an n-gram is counted / yielded whatever bytes it holds
_COUNT = "            counter.update(bytes(gram) for gram in grams)\n"
_YIELD_KEY = "            if count >= first_count:\n"
# breaking: all-zero grams skipped in an explicit counting loop; printable keys only; NUL test in front of the yield; filter(lambda)
M("C17", "r5-loop-skips-all-zero-grams", G, _COUNT, "            for gram in grams:\n                if not any(gram):\n                    continue\n                counter[bytes(gram)] += 1\n", "C17.R5")
M("C17", "r5-only-printable-grams-counted", G, _COUNT, "            counter.update(k for k in map(bytes, grams) if k.isascii())\n", "C17.R5")
M("C17", "r5-yield-skips-keys-with-nul", G, _YIELD_KEY, "            if b\"\\x00\" in key:\n                continue\n" + _YIELD_KEY, "C17.R5")
M("C17", "r5-filter-lambda-on-first-byte", G, _COUNT, "            counter.update(map(bytes, filter(lambda g: g[0] != 0, grams)))\n", "C17.R5")
# twins: explicit counting loop; map; conditions on length / truthiness / None-ness are not conditions on the bytes
T("C17", "twin-r5-explicit-counting-loop", G, _COUNT, "            for gram in grams:\n                counter[bytes(gram)] += 1\n")
T("C17", "twin-r5-count-map-bytes", G, _COUNT, "            counter.update(map(bytes, grams))\n")
T("C17", "twin-r5-length-filter", G, _COUNT, "            counter.update(bytes(gram) for gram in grams if len(gram) == keylen and None not in gram)\n")
T("C17", "twin-r5-yield-nonempty-key", G, _YIELD_KEY, "            if not key:\n                continue\n" + _YIELD_KEY)
T("C17", "twin-r5-counter-from-generator", G, "", "", edits=[(G, _COUNT, "            counter = counter + collections.Counter(bytes(gram) for gram in grams)\n")])
