"""C06 - additional mutants / twins: one twin per kind of refactoring the rules are robust against, mutants for every
restructured rule (rules/c06.py)."""

from selftest.corpus import M, T

C2 = "c2.py"
CL = "client.py"
CC = "c_c2.py"

# ---------------------------------------------------------------------------------------------- anchors (source text)
DEC = ("    cipher = PKCS1_v1_5.new(private_key)\n    pt = cipher.decrypt(encrypted_metadata, None)\n    if not pt:\n"
       "        # depending on the pycryptodome version a padding failure yields the sentinel (None) or empty bytes\n"
       "        raise ValueError(\"Failed to RSA decrypt metadata\")\n    try:\n        metadata = BeaconMetadata(pt)\n    except EOFError:\n"
       "        raise ValueError(\"Failed to parse decrypted metadata, not enough data\")\n    if metadata.magic != 0xBEEF:\n"
       "        raise ValueError(f\"Invalid metadata magic, got {metadata.magic:08x}, expected 0xbeef\")\n    return metadata\n")
ENC = "    cipher = PKCS1_v1_5.new(public_key)\n    metadata.size = len(metadata) - 8\n    return cipher.encrypt(metadata.dumps())\n"
DER = "    digest = hashlib.sha256(aes_random).digest()\n    return digest[:16], digest[16:]\n"
FAR = "        aes_key, hmac_key = derive_aes_hmac_keys(aes_rand)\n        return cls(aes_key=aes_key, hmac_key=hmac_key, iv=iv)\n"
FBM = "        return cls.from_aes_rand(metadata.aes_rand, iv=iv)\n"
INIT = "            self.aes_key, self.hmac_key = derive_aes_hmac_keys(aes_rand)\n"
REC = "                    aes_key, hmac_key = derive_aes_hmac_keys(metadata.aes_rand)\n                    self.beacon_keys = BeaconKeys(aes_key, hmac_key)\n"
CLI = "        digest = hashlib.sha256(self.aes_rand).digest()\n        self.aes_key = digest[:16]\n        self.hmac_key = digest[16:]\n"
MAGIC_W = "        self.metadata.magic = 0xBEEF\n"
CARRY = "        self.metadata.aes_rand = self.aes_rand\n"


def dec(sentinel_test, parse=None, magic=None, head=None):
    head = head or "    cipher = PKCS1_v1_5.new(private_key)\n    pt = cipher.decrypt(encrypted_metadata, None)\n"
    parse = parse or ("    try:\n        metadata = BeaconMetadata(pt)\n    except EOFError:\n"
                      "        raise ValueError(\"Failed to parse decrypted metadata, not enough data\")\n")
    magic = magic or ("    if metadata.magic != 0xBEEF:\n        raise ValueError(f\"Invalid metadata magic, got {metadata.magic:08x}, expected 0xbeef\")\n"
                      "    return metadata\n")
    return head + sentinel_test + parse + magic


RAISE_DEC = "        raise ValueError(\"Failed to RSA decrypt metadata\")\n"

# ================================================================================================ R2 / R6 decrypt_metadata
# the sentinel / emptiness test spelled differently
T("C06", "twin-dec-none-or-len0", C2, DEC, dec("    if pt is None or len(pt) == 0:\n" + RAISE_DEC))
T("C06", "twin-dec-none-or-empty-literal", C2, DEC, dec("    if pt is None or pt == b\"\":\n" + RAISE_DEC))
T("C06", "twin-dec-len-of-or", C2, DEC, dec("    if len(pt or b\"\") == 0:\n" + RAISE_DEC))
T("C06", "twin-dec-isinstance", C2, DEC, dec("    if not isinstance(pt, bytes) or not pt:\n" + RAISE_DEC))
T("C06", "twin-dec-flag-variable", C2, DEC, dec("    decrypted = bool(pt)\n    if not decrypted:\n" + RAISE_DEC))
T("C06", "twin-dec-two-guards", C2, DEC, dec("    if pt is None:\n" + RAISE_DEC + "    if 0 == len(pt):\n" + RAISE_DEC))
# cipher built inline, keyword sentinel, renamed / aliased plaintext
T("C06", "twin-dec-inline-cipher-kw-sentinel", C2, DEC,
  dec("    if not plaintext:\n" + RAISE_DEC, head="    plaintext = PKCS1_v1_5.new(private_key).decrypt(encrypted_metadata, sentinel=None)\n",
      parse="    try:\n        metadata = BeaconMetadata(plaintext)\n    except EOFError:\n        raise ValueError(\"Failed to parse decrypted metadata, not enough data\")\n"))
T("C06", "twin-dec-alias", C2, DEC,
  dec("    if not pt:\n" + RAISE_DEC, parse="    data = pt\n    try:\n        metadata = BeaconMetadata(data)\n    except EOFError:\n        raise ValueError(\"Failed to parse decrypted metadata, not enough data\")\n"))
T("C06", "twin-dec-named-sentinel", C2, DEC,
  dec("    if pt is failed or not pt:\n" + RAISE_DEC, head="    failed = None\n    cipher = PKCS1_v1_5.new(private_key)\n    pt = cipher.decrypt(encrypted_metadata, failed)\n"))
# positive conditions / nesting instead of guard clauses; try/except/else
T("C06", "twin-dec-positive-nesting", C2, DEC,
  "    cipher = PKCS1_v1_5.new(private_key)\n    pt = cipher.decrypt(encrypted_metadata, None)\n    if pt:\n        try:\n            metadata = BeaconMetadata(pt)\n"
  "        except EOFError:\n            raise ValueError(\"Failed to parse decrypted metadata, not enough data\")\n        if metadata.magic == 0xBEEF:\n            return metadata\n"
  "        raise ValueError(f\"Invalid metadata magic, got {metadata.magic:08x}, expected 0xbeef\")\n    raise ValueError(\"Failed to RSA decrypt metadata\")\n")
T("C06", "twin-dec-try-else", C2, DEC,
  dec("    if not pt:\n" + RAISE_DEC, parse="    try:\n        metadata = BeaconMetadata(pt)\n    except EOFError:\n        raise ValueError(\"Failed to parse decrypted metadata, not enough data\")\n    else:\n"
      "        if metadata.magic == 0xBEEF:\n            return metadata\n", magic="    raise ValueError(f\"Invalid metadata magic, got {metadata.magic:08x}, expected 0xbeef\")\n"))
T("C06", "twin-dec-raise-from", C2, DEC,
  dec("    if not pt:\n" + RAISE_DEC, parse="    try:\n        metadata = BeaconMetadata(pt)\n    except EOFError as e:\n        raise ValueError(\"Failed to parse decrypted metadata, not enough data\") from e\n"))
# the magic test spelled differently
T("C06", "twin-dec-magic-local", C2, DEC,
  dec("    if not pt:\n" + RAISE_DEC, magic="    magic = metadata.magic\n    if magic != 0xBEEF:\n        raise ValueError(f\"Invalid metadata magic, got {magic:08x}, expected 0xbeef\")\n    return metadata\n"))
T("C06", "twin-dec-magic-mirrored", C2, DEC,
  dec("    if not pt:\n" + RAISE_DEC, magic="    if not 0xBEEF == metadata.magic:\n        raise ValueError(f\"Invalid metadata magic, got {metadata.magic:08x}, expected 0xbeef\")\n    return metadata\n"))
T("C06", "twin-dec-magic-membership", C2, DEC,
  dec("    if not pt:\n" + RAISE_DEC, magic="    if metadata.magic not in (0xBEEF,):\n        raise ValueError(f\"Invalid metadata magic, got {metadata.magic:08x}, expected 0xbeef\")\n    return metadata\n"))
T("C06", "twin-dec-magic-arith-const", C2, DEC,
  dec("    if not pt:\n" + RAISE_DEC, magic="    if metadata.magic != (0xBE << 8 | 0xEF):\n        raise ValueError(f\"Invalid metadata magic, got {metadata.magic:08x}, expected 0xbeef\")\n    return metadata\n"))
T("C06", "twin-dec-result-variable", C2, DEC,
  dec("    if not pt:\n" + RAISE_DEC, magic="    if metadata.magic != 0xBEEF:\n        raise ValueError(f\"Invalid metadata magic, got {metadata.magic:08x}, expected 0xbeef\")\n    result = metadata\n    return result\n"))

M("C06", "dec-only-none-two-guards", C2, DEC, dec("    if pt is None:\n" + RAISE_DEC + "    if len(pt) < 0:\n" + RAISE_DEC), "C06.R6")
M("C06", "dec-sentinel-empty-but-none-tested", C2, DEC, dec("    if pt is None:\n" + RAISE_DEC, head="    cipher = PKCS1_v1_5.new(private_key)\n    pt = cipher.decrypt(encrypted_metadata, b\"\")\n"), "C06.R2")
M("C06", "dec-sentinel-logged-only", C2, "    if not pt:\n        # depending on the pycryptodome version a padding failure yields the sentinel (None) or empty bytes\n        raise ValueError(\"Failed to RSA decrypt metadata\")\n",
  "    if not pt:\n        logger.warning(\"Failed to RSA decrypt metadata\")\n        pt = b\"\\x00\" * 59\n", "C06.R2")
M("C06", "dec-sentinel-wrong-class", C2, RAISE_DEC, "        raise KeyError(\"Failed to RSA decrypt metadata\")\n", "C06.R2")
M("C06", "dec-magic-wrong-class", C2, "        raise ValueError(f\"Invalid metadata magic, got {metadata.magic:08x}, expected 0xbeef\")\n",
  "        raise RuntimeError(f\"Invalid metadata magic, got {metadata.magic:08x}, expected 0xbeef\")\n", "C06.R2")
M("C06", "dec-magic-wrong-constant", C2, "    if metadata.magic != 0xBEEF:\n", "    if metadata.magic != 0xBEEE:\n", "C06.R2")
M("C06", "dec-magic-masked", C2, "    if metadata.magic != 0xBEEF:\n", "    if metadata.magic & 0xFFFF != 0xBEEF:\n", "C06.R2")
M("C06", "dec-magic-removed", C2, "    if metadata.magic != 0xBEEF:\n        raise ValueError(f\"Invalid metadata magic, got {metadata.magic:08x}, expected 0xbeef\")\n    return metadata\n", "    return metadata\n", "C06.R2")
M("C06", "dec-magic-of-other-object", C2, "    if metadata.magic != 0xBEEF:\n        raise ValueError(f\"Invalid metadata magic, got {metadata.magic:08x}, expected 0xbeef\")\n    return metadata\n",
  "    if metadata.magic != 0xBEEF:\n        raise ValueError(f\"Invalid metadata magic, got {metadata.magic:08x}, expected 0xbeef\")\n    return BeaconMetadata(pt[4:])\n", "C06.R2")
M("C06", "dec-magic-inverted-positive", C2, DEC,
  "    cipher = PKCS1_v1_5.new(private_key)\n    pt = cipher.decrypt(encrypted_metadata, None)\n    if pt:\n        try:\n            metadata = BeaconMetadata(pt)\n"
  "        except EOFError:\n            raise ValueError(\"Failed to parse decrypted metadata, not enough data\")\n        if metadata.magic != 0xBEEF:\n            return metadata\n"
  "        raise ValueError(f\"Invalid metadata magic, got {metadata.magic:08x}, expected 0xbeef\")\n    raise ValueError(\"Failed to RSA decrypt metadata\")\n", "C06.R2")
M("C06", "dec-returns-fresh-object", C2, "        raise ValueError(f\"Invalid metadata magic, got {metadata.magic:08x}, expected 0xbeef\")\n    return metadata\n",
  "        raise ValueError(f\"Invalid metadata magic, got {metadata.magic:08x}, expected 0xbeef\")\n    return BeaconMetadata()\n", "C06.R2")
M("C06", "dec-blob-stripped", C2, "    pt = cipher.decrypt(encrypted_metadata, None)\n", "    pt = cipher.decrypt(encrypted_metadata.rstrip(b\"\\x00\"), None)\n", "C06.R2")
M("C06", "dec-oaep", C2, "    cipher = PKCS1_v1_5.new(private_key)\n    pt = cipher.decrypt(encrypted_metadata, None)\n", "    cipher = PKCS1_OAEP.new(private_key)\n    pt = cipher.decrypt(encrypted_metadata, None)\n", "C06.R4")

# ================================================================================================ R1 / R4 encrypt_metadata
T("C06", "twin-enc-intermediates-inline-cipher", C2, ENC,
  "    total_size = len(metadata)\n    metadata.size = total_size - (4 + 4)\n    plaintext = metadata.dumps()\n    return PKCS1_v1_5.new(public_key).encrypt(plaintext)\n")
T("C06", "twin-enc-commuted-arithmetic", C2, "    metadata.size = len(metadata) - 8\n", "    metadata.size = -8 + len(metadata)\n")
T("C06", "twin-enc-split-constant", C2, "    metadata.size = len(metadata) - 8\n", "    header = 4\n    metadata.size = len(metadata) - header - header\n")
T("C06", "twin-enc-size-from-info", C2, "    metadata.size = len(metadata) - 8\n", "    metadata.size = len(metadata.info) + 51\n")
T("C06", "twin-enc-size-from-dumps", C2, "    metadata.size = len(metadata) - 8\n", "    metadata.size = len(metadata.dumps()) - 8\n")
T("C06", "twin-enc-setattr", C2, "    metadata.size = len(metadata) - 8\n", "    setattr(metadata, \"size\", len(metadata) - 8)\n")
T("C06", "twin-enc-store-only-if-different", C2, "    metadata.size = len(metadata) - 8\n", "    expected = len(metadata) - 8\n    if metadata.size != expected:\n        metadata.size = expected\n")
T("C06", "twin-enc-result-variable", C2, "    return cipher.encrypt(metadata.dumps())\n", "    data = metadata.dumps()\n    encrypted = cipher.encrypt(data)\n    return encrypted\n")
T("C06", "twin-enc-keyword-key", C2, "    cipher = PKCS1_v1_5.new(public_key)\n    metadata.size", "    cipher = PKCS1_v1_5.new(key=public_key)\n    metadata.size")
T("C06", "twin-enc-reraise", C2, "    return cipher.encrypt(metadata.dumps())\n", "    try:\n        return cipher.encrypt(metadata.dumps())\n    except ValueError:\n        raise\n")
# an explicit pre-check with the exact PKCS#1 v1.5 bound (what the library does anyway), in several spellings
T("C06", "twin-enc-exact-bound", C2, "    return cipher.encrypt(metadata.dumps())\n",
  "    data = metadata.dumps()\n    if len(data) > public_key.size_in_bytes() - 11:\n        raise ValueError(\"Plaintext is too long.\")\n    return cipher.encrypt(data)\n")
T("C06", "twin-enc-exact-bound-moved-term", C2, "    return cipher.encrypt(metadata.dumps())\n",
  "    data = metadata.dumps()\n    if len(data) + 11 > public_key.size_in_bytes():\n        raise ValueError(\"Plaintext is too long.\")\n    return cipher.encrypt(data)\n")
T("C06", "twin-enc-exact-bound-limit-local-positive", C2, "    return cipher.encrypt(metadata.dumps())\n",
  "    data = metadata.dumps()\n    limit = public_key.size_in_bytes() - 11\n    if len(data) <= limit:\n        return cipher.encrypt(data)\n    raise ValueError(\"Plaintext is too long.\")\n")
T("C06", "twin-enc-exact-bound-ge", C2, "    return cipher.encrypt(metadata.dumps())\n",
  "    data = metadata.dumps()\n    if len(data) >= public_key.size_in_bytes() - 10:\n        raise ValueError(\"Plaintext is too long.\")\n    return cipher.encrypt(data)\n")

M("C06", "enc-bound-off-by-one-moved-term", C2, "    return cipher.encrypt(metadata.dumps())\n",
  "    data = metadata.dumps()\n    if len(data) + 11 >= public_key.size_in_bytes():\n        raise ValueError(\"Plaintext is too long.\")\n    return cipher.encrypt(data)\n", "C06.R4")
M("C06", "enc-bound-off-by-one-positive", C2, "    return cipher.encrypt(metadata.dumps())\n",
  "    data = metadata.dumps()\n    limit = public_key.size_in_bytes() - 11\n    if len(data) < limit:\n        return cipher.encrypt(data)\n    raise ValueError(\"Plaintext is too long.\")\n", "C06.R4")
M("C06", "enc-bound-fixed-1024", C2, "    return cipher.encrypt(metadata.dumps())\n",
  "    data = metadata.dumps()\n    if len(data) > 117:\n        raise ValueError(\"Plaintext is too long.\")\n    return cipher.encrypt(data)\n", "C06.R4")
M("C06", "enc-size-conditional-intermediates", C2, ENC,
  "    total_size = len(metadata)\n    if metadata.size == 0:\n        metadata.size = total_size - 8\n    plaintext = metadata.dumps()\n    return PKCS1_v1_5.new(public_key).encrypt(plaintext)\n", "C06.R4")
M("C06", "enc-size-store-only-if-smaller", C2, "    metadata.size = len(metadata) - 8\n", "    expected = len(metadata) - 8\n    if metadata.size < expected:\n        metadata.size = expected\n", "C06.R4")
M("C06", "enc-size-never-set", C2, "    metadata.size = len(metadata) - 8\n", "", "C06.R4")
M("C06", "enc-size-from-info-wrong", C2, "    metadata.size = len(metadata) - 8\n", "    metadata.size = len(metadata.info) + 59\n", "C06.R1")
M("C06", "enc-size-total", C2, "    metadata.size = len(metadata) - 8\n", "    total = len(metadata)\n    metadata.size = total\n", "C06.R1")
M("C06", "enc-truncated-plaintext", C2, "    return cipher.encrypt(metadata.dumps())\n", "    return cipher.encrypt(metadata.dumps()[:117])\n", "C06.R4")
M("C06", "enc-returns-plaintext", C2, "    return cipher.encrypt(metadata.dumps())\n", "    data = metadata.dumps()\n    cipher.encrypt(data)\n    return data\n", "C06.R4")
M("C06", "enc-key-mismatch", C2, "    cipher = PKCS1_v1_5.new(public_key)\n    metadata.size", "    cipher = PKCS1_v1_5.new(public_key.public_key())\n    metadata.size", "C06.R4")

T("C06", "twin-cdef-hex-and-comments", CC, "    char info[size - 51];", "    char   info[size - 0x33];   // computer \\t user \\t process")
M("C06", "cdef-size-field-16bit", CC, "    uint32 magic;\n    uint32 size;\n    char aes_rand[16];", "    uint32 magic;\n    uint16 size;\n    char aes_rand[16];", "C06.R1")

# ================================================================================================ R3 client magic
T("C06", "twin-client-magic-local", CL, MAGIC_W, "        metadata_magic = 0xBE00 + 0xEF\n        self.metadata.magic = metadata_magic\n")
T("C06", "twin-client-magic-ctor-keyword", CL, "        self.metadata = BeaconMetadata()\n        self.metadata.magic = 0xBEEF\n", "        self.metadata = BeaconMetadata(magic=0xBEEF)\n")
T("C06", "twin-client-metadata-local", CL, "        self.metadata = BeaconMetadata()\n        self.metadata.magic = 0xBEEF\n", "        fresh = BeaconMetadata()\n        fresh.magic = 0xBEEF\n        self.metadata = fresh\n")
M("C06", "client-magic-never-set", CL, MAGIC_W, "", "C06.R3")
M("C06", "client-magic-ctor-keyword-wrong", CL, "        self.metadata = BeaconMetadata()\n        self.metadata.magic = 0xBEEF\n", "        self.metadata = BeaconMetadata(magic=0xEFBE)\n", "C06.R3")

# ================================================================================================ R5 derivation
T("C06", "twin-derive-hashlib-new-bounded-slices", C2, DER,
  "    digest = hashlib.new(\"sha256\", aes_random).digest()\n    aes_key = digest[:16]\n    hmac_key = digest[16 : 2 * 16]\n    return aes_key, hmac_key\n")
T("C06", "twin-derive-negative-slices", C2, DER, "    digest = hashlib.sha256(aes_random).digest()\n    return digest[:-16], digest[-16:]\n")
T("C06", "twin-derive-hash-object-local", C2, DER, "    sha = hashlib.sha256(aes_random)\n    digest = sha.digest()\n    keys = (digest[0:16], digest[16:32])\n    return keys\n")
T("C06", "twin-derive-data-keyword", C2, DER, "    digest = hashlib.new(\"SHA256\", data=aes_random).digest()\n    return digest[:16], digest[16:]\n")
M("C06", "derive-same-half-twice", C2, DER, "    digest = hashlib.sha256(aes_random).digest()\n    return digest[:16], digest[:16]\n", "C06.R5")
M("C06", "derive-short-hmac-half", C2, DER, "    digest = hashlib.sha256(aes_random).digest()\n    aes_key = digest[:16]\n    hmac_key = digest[16:24]\n    return aes_key, hmac_key\n", "C06.R5")
M("C06", "derive-hashlib-new-sha1", C2, DER, "    digest = hashlib.new(\"sha1\", aes_random).digest()\n    return digest[:16], digest[16:]\n", "C06.R5")
M("C06", "derive-swapped-through-locals", C2, DER, "    digest = hashlib.sha256(aes_random).digest()\n    hmac_key = digest[:16]\n    aes_key = digest[16:]\n    return aes_key, hmac_key\n", "C06.R5")
M("C06", "derive-truncated-seed", C2, DER, "    digest = hashlib.sha256(aes_random[:8]).digest()\n    return digest[:16], digest[16:]\n", "C06.R5")

# call sites: star arguments, positional arguments, indexing, the helper classmethod, locals
T("C06", "twin-far-star-args", C2, FAR, "        return cls(*derive_aes_hmac_keys(aes_rand), iv)\n")
T("C06", "twin-far-indexing", C2, FAR, "        keys = derive_aes_hmac_keys(aes_rand)\n        return cls(keys[0], keys[1], iv)\n")
T("C06", "twin-far-keyword-order", C2, FAR, "        aes_key, hmac_key = derive_aes_hmac_keys(aes_rand)\n        return cls(iv=iv, hmac_key=hmac_key, aes_key=aes_key)\n")
T("C06", "twin-far-renamed-locals", C2, FAR, "        first, second = derive_aes_hmac_keys(aes_rand)\n        return cls(first, second, iv)\n")
T("C06", "twin-fbm-local-positional", C2, FBM, "        aes_rand: bytes = metadata.aes_rand\n        return cls.from_aes_rand(aes_rand, iv)\n")
T("C06", "twin-rec-helper-classmethod", C2, REC, "                    self.beacon_keys = BeaconKeys.from_aes_rand(metadata.aes_rand)\n")
T("C06", "twin-rec-from-metadata", C2, REC, "                    self.beacon_keys = BeaconKeys.from_beacon_metadata(metadata)\n")
T("C06", "twin-rec-star", C2, REC, "                    self.beacon_keys = BeaconKeys(*derive_aes_hmac_keys(metadata.aes_rand))\n")
T("C06", "twin-rec-keywords", C2, REC, "                    derived = derive_aes_hmac_keys(metadata.aes_rand)\n                    self.beacon_keys = BeaconKeys(hmac_key=derived[1], aes_key=derived[0])\n")
T("C06", "twin-init-via-container", C2, INIT, "            derived = BeaconKeys.from_aes_rand(aes_rand)\n            self.aes_key, self.hmac_key = derived.aes_key, derived.hmac_key\n")
T("C06", "twin-init-two-statements", C2, INIT, "            derived = derive_aes_hmac_keys(aes_rand)\n            self.aes_key = derived[0]\n            self.hmac_key = derived[1]\n")
T("C06", "twin-client-tuple-assignment", CL, CLI, "        digest = hashlib.sha256(self.aes_rand).digest()\n        self.aes_key, self.hmac_key = digest[:16], digest[16:]\n")
T("C06", "twin-client-seed-local", CL, CLI, "        seed = self.aes_rand\n        digest = hashlib.sha256(seed).digest()\n        self.aes_key = digest[:16]\n        self.hmac_key = digest[16:]\n")
T("C06", "twin-client-carry-local", CL, CARRY, "        aes_rand = self.aes_rand\n        self.metadata.aes_rand = aes_rand\n")

M("C06", "far-star-args-container-order", C2, FAR, "        return cls(iv, *derive_aes_hmac_keys(aes_rand))\n", "C06.R5")
M("C06", "far-keywords-crossed", C2, FAR, "        aes_key, hmac_key = derive_aes_hmac_keys(aes_rand)\n        return cls(aes_key=hmac_key, hmac_key=aes_key, iv=iv)\n", "C06.R5")
M("C06", "far-indexing-crossed", C2, FAR, "        keys = derive_aes_hmac_keys(aes_rand)\n        return cls(keys[1], keys[0], iv)\n", "C06.R5")
M("C06", "far-derives-from-iv", C2, FAR, "        return cls(*derive_aes_hmac_keys(iv[:16] + aes_rand), iv)\n", "C06.R5")
M("C06", "rec-positional-crossed", C2, REC, "                    aes_key, hmac_key = derive_aes_hmac_keys(metadata.aes_rand)\n                    self.beacon_keys = BeaconKeys(hmac_key, aes_key)\n", "C06.R5")
M("C06", "rec-derives-from-blob", C2, REC, "                    self.beacon_keys = BeaconKeys.from_aes_rand(c2data.metadata[:16])\n", "C06.R5")
M("C06", "rec-derives-from-other-field", C2, REC, "                    self.beacon_keys = BeaconKeys(*derive_aes_hmac_keys(metadata.info))\n", "C06.R5")
M("C06", "init-container-crossed", C2, INIT, "            derived = BeaconKeys.from_aes_rand(aes_rand)\n            self.aes_key, self.hmac_key = derived.hmac_key, derived.aes_key\n", "C06.R5")
M("C06", "client-halves-crossed-tuple", CL, CLI, "        digest = hashlib.sha256(self.aes_rand).digest()\n        self.hmac_key, self.aes_key = digest[:16], digest[16:]\n", "C06.R5")
M("C06", "client-c2http-keywords-crossed", CL, "C2Http(bconfig, aes_key=self.aes_key, hmac_key=self.hmac_key)", "C2Http(bconfig, aes_key=self.hmac_key, hmac_key=self.aes_key)", "C06.R5")
M("C06", "client-metadata-carries-other-bytes", CL, CARRY, "        self.metadata.aes_rand = self.aes_rand[::-1]\n", "C06.R5")
M("C06", "client-metadata-aes-rand-never-set", CL, CARRY, "", "C06.R5")
M("C06", "client-seed-salted", CL, "        digest = hashlib.sha256(self.aes_rand).digest()\n", "        digest = hashlib.sha256(self.aes_rand + b\"beacon\").digest()\n", "C06.R5")

# ================================================================================================ helper extraction, constants
T("C06", "twin-dec-helper-rsa-decrypt", C2, DEC,
  dec("", head="    pt = _rsa_decrypt(encrypted_metadata, private_key)\n") +
  "\n\ndef _rsa_decrypt(blob: bytes, key: RSA.RsaKey) -> bytes:\n    plaintext = PKCS1_v1_5.new(key).decrypt(blob, None)\n    if not plaintext:\n"
  "        raise ValueError(\"Failed to RSA decrypt metadata\")\n    return plaintext\n")
T("C06", "twin-dec-helper-magic-check", C2, DEC,
  dec("    if not pt:\n" + RAISE_DEC, magic="    _check_magic(metadata)\n    return metadata\n") +
  "\n\ndef _check_magic(metadata: BeaconMetadata) -> None:\n    if metadata.magic != METADATA_MAGIC:\n"
  "        raise ValueError(f\"Invalid metadata magic, got {metadata.magic:08x}, expected 0xbeef\")\n\n\nMETADATA_MAGIC = 0xBEEF\n")
T("C06", "twin-dec-helper-predicate", C2, DEC,
  dec("    if not pt:\n" + RAISE_DEC, magic="    if not _has_valid_magic(metadata):\n        raise ValueError(f\"Invalid metadata magic, got {metadata.magic:08x}, expected 0xbeef\")\n    return metadata\n") +
  "\n\ndef _has_valid_magic(metadata: BeaconMetadata) -> bool:\n    return metadata.magic == 0xBEEF\n")
T("C06", "twin-dec-object-sentinel", C2, DEC,
  dec("    if pt is _NO_PLAINTEXT or not pt:\n" + RAISE_DEC, head="    cipher = PKCS1_v1_5.new(private_key)\n    pt = cipher.decrypt(encrypted_metadata, _NO_PLAINTEXT)\n") + "\n\n_NO_PLAINTEXT = None\n")
T("C06", "twin-dec-rebinds-result", C2, DEC, dec("    if pt is None:\n        pt = b\"\"\n    if not pt:\n" + RAISE_DEC))
T("C06", "twin-enc-helper-size", C2, ENC,
  "    cipher = PKCS1_v1_5.new(public_key)\n    metadata.size = _size_field_value(metadata)\n    return cipher.encrypt(metadata.dumps())\n"
  "\n\ndef _size_field_value(metadata: BeaconMetadata) -> int:\n    return len(metadata) - METADATA_HEADER_SIZE\n\n\nMETADATA_HEADER_SIZE = 8\n")
T("C06", "twin-enc-helper-update", C2, ENC,
  "    _update_size(metadata)\n    return PKCS1_v1_5.new(public_key).encrypt(metadata.dumps())\n"
  "\n\ndef _update_size(metadata: BeaconMetadata) -> None:\n    metadata.size = len(metadata) - 8\n")
T("C06", "twin-derive-helper-digest", C2, DER,
  "    digest = _sha256(aes_random)\n    return digest[:KEY_SIZE], digest[KEY_SIZE:]\n\n\nKEY_SIZE = 16\n\n\ndef _sha256(data: bytes) -> bytes:\n    return hashlib.sha256(data).digest()\n")
T("C06", "twin-rec-helper-function", C2, None, None, edits=[
  (C2, REC, "                    self.beacon_keys = _keys_from_metadata(metadata)\n"),
  (C2, "def derive_aes_hmac_keys(aes_random: bytes)", "def _keys_from_metadata(metadata: BeaconMetadata) -> BeaconKeys:\n    aes_key, hmac_key = derive_aes_hmac_keys(metadata.aes_rand)\n"
   "    return BeaconKeys(aes_key, hmac_key)\n\n\ndef derive_aes_hmac_keys(aes_random: bytes)")])
T("C06", "twin-dec-none-initialised-result", C2, DEC,
  dec("    if not pt:\n" + RAISE_DEC, parse="    metadata = None\n    try:\n        metadata = BeaconMetadata(pt)\n    except EOFError:\n        raise ValueError(\"Failed to parse decrypted metadata, not enough data\")\n"))
M("C06", "dec-returns-unchecked-reparse", C2, "    return metadata\n\n\ndef encrypt_metadata", "    metadata = BeaconMetadata(encrypted_metadata)\n    return metadata\n\n\ndef encrypt_metadata", "C06.R2")
T("C06", "twin-dec-walrus", C2, DEC, dec("    if not (pt := cipher.decrypt(encrypted_metadata, None)):\n" + RAISE_DEC, head="    cipher = PKCS1_v1_5.new(private_key)\n"))
T("C06", "twin-dec-or-empty", C2, DEC, dec("    if len(pt) == 0:\n" + RAISE_DEC, head="    cipher = PKCS1_v1_5.new(private_key)\n    pt = cipher.decrypt(encrypted_metadata, None) or b\"\"\n"))
T("C06", "twin-dec-magic-flag", C2, DEC,
  dec("    if not pt:\n" + RAISE_DEC, magic="    magic_ok = metadata.magic == 0xBEEF\n    if not magic_ok:\n        raise ValueError(f\"Invalid metadata magic, got {metadata.magic:08x}, expected 0xbeef\")\n    return metadata\n"))
T("C06", "twin-dec-chained-length", C2, DEC, dec("    if pt is None or not 0 < len(pt):\n" + RAISE_DEC))
T("C06", "twin-client-uses-derive-function", CL, None, None, edits=[
  (CL, CLI, "        self.aes_key, self.hmac_key = derive_aes_hmac_keys(self.aes_rand)\n"),
  (CL, "    c2packet_to_record,\n", "    c2packet_to_record,\n    derive_aes_hmac_keys,\n")])
T("C06", "twin-client-uses-beacon-keys", CL, None, None, edits=[
  (CL, CLI, "        session_keys = BeaconKeys.from_aes_rand(self.aes_rand)\n        self.aes_key = session_keys.aes_key\n        self.hmac_key = session_keys.hmac_key\n"),
  (CL, "    BeaconConfig,\n    BeaconMetadata,\n", "    BeaconConfig,\n    BeaconKeys,\n    BeaconMetadata,\n")])
M("C06", "client-uses-beacon-keys-crossed", CL, None, None, "C06.R5", edits=[
  (CL, CLI, "        session_keys = BeaconKeys.from_aes_rand(self.aes_rand)\n        self.aes_key = session_keys.hmac_key\n        self.hmac_key = session_keys.aes_key\n"),
  (CL, "    BeaconConfig,\n    BeaconMetadata,\n", "    BeaconConfig,\n    BeaconKeys,\n    BeaconMetadata,\n")])
T("C06", "twin-rec-namedtuple-replace", C2, REC, "                    aes_key, hmac_key = derive_aes_hmac_keys(metadata.aes_rand)\n                    self.beacon_keys = self.beacon_keys._replace(aes_key=aes_key, hmac_key=hmac_key)\n")
T("C06", "twin-dec-helper-optional-result", C2, DEC,
  dec("    if pt is None:\n" + RAISE_DEC, head="    pt = _pkcs1_decrypt(private_key, encrypted_metadata)\n") +
  "\n\ndef _pkcs1_decrypt(key: RSA.RsaKey, blob: bytes) -> Optional[bytes]:\n    plaintext = PKCS1_v1_5.new(key).decrypt(blob, None)\n    return plaintext or None\n")
T("C06", "twin-dec-helper-two-returns", C2, DEC,
  dec("    if pt is None:\n" + RAISE_DEC, head="    pt = _pkcs1_decrypt(private_key, encrypted_metadata)\n") +
  "\n\ndef _pkcs1_decrypt(key: RSA.RsaKey, blob: bytes) -> Optional[bytes]:\n    plaintext = PKCS1_v1_5.new(key).decrypt(blob, None)\n    if not plaintext:\n        return None\n    return plaintext\n")
M("C06", "rec-drops-hmac-key", C2, REC, "                    aes_key, hmac_key = derive_aes_hmac_keys(metadata.aes_rand)\n                    self.beacon_keys = BeaconKeys(aes_key)\n", "C06.R5")
M("C06", "far-drops-hmac-key", C2, FAR, "        aes_key, hmac_key = derive_aes_hmac_keys(aes_rand)\n        return cls(aes_key=aes_key, iv=iv)\n", "C06.R5")
M("C06", "client-c2http-drops-hmac-key", CL, "C2Http(bconfig, aes_key=self.aes_key, hmac_key=self.hmac_key)", "C2Http(bconfig, aes_key=self.aes_key)", "C06.R5")

# ================================================================================================ second round (kinds found by independent refactorings)
META_FILL = ("        self.metadata.magic = 0xBEEF\n        self.metadata.ansi_cp = ansi_cp\n        self.metadata.oem_cp = oem_cp\n        self.metadata.bid = self.beacon_id\n"
             "        self.metadata.pid = self.pid\n        self.metadata.flag = flag\n        self.metadata.aes_rand = self.aes_rand\n        self.metadata.ip = internal_ip_int\n"
             "        self.metadata.ver_major = ver_major\n        self.metadata.ver_minor = ver_minor\n        self.metadata.ver_build = ver_build\n        self.metadata.info = info_bytes\n")


def table(aes_rand="self.aes_rand", magic="0xBEEF"):
    return ("        for field, value in (\n            (\"magic\", %s),\n            (\"ansi_cp\", ansi_cp),\n            (\"oem_cp\", oem_cp),\n            (\"bid\", self.beacon_id),\n"
            "            (\"pid\", self.pid),\n            (\"flag\", flag),\n            (\"aes_rand\", %s),\n            (\"ip\", internal_ip_int),\n            (\"ver_major\", ver_major),\n"
            "            (\"ver_minor\", ver_minor),\n            (\"ver_build\", ver_build),\n            (\"info\", info_bytes),\n        ):\n            setattr(self.metadata, field, value)\n") % (magic, aes_rand)


# metadata filled by a setattr loop over a literal table
T("C06", "twin-client-setattr-table", CL, META_FILL, table())
M("C06", "client-setattr-table-wrong-seed", CL, META_FILL, table(aes_rand="self.aes_key"), "C06.R5")
M("C06", "client-setattr-table-wrong-magic", CL, META_FILL, table(magic="0xBEEF0000"), "C06.R3")
# constants defined in c2.py and imported by client.py (the loader folds constants only in the defining module)
T("C06", "twin-client-imported-constants", CL, None, None, edits=[
  (C2, "def derive_aes_hmac_keys(aes_random: bytes)", "BEACON_METADATA_MAGIC = 0xBEEF\nSESSION_KEY_SIZE = 16\n\n\ndef derive_aes_hmac_keys(aes_random: bytes)"),
  (CL, "    c2packet_to_record,\n", "    c2packet_to_record,\n    BEACON_METADATA_MAGIC,\n    SESSION_KEY_SIZE,\n"),
  (CL, MAGIC_W, "        self.metadata.magic = BEACON_METADATA_MAGIC\n"),
  (CL, CLI, "        digest = hashlib.sha256(self.aes_rand).digest()\n        self.aes_key = digest[:SESSION_KEY_SIZE]\n        self.hmac_key = digest[SESSION_KEY_SIZE:]\n")])
# the split point computed from the digest
T("C06", "twin-derive-half-of-length", C2, DER, "    digest = hashlib.new(\"sha256\", aes_random).digest()\n    half = len(digest) // 2\n    return digest[:half], digest[half:]\n")
M("C06", "derive-third-of-length", C2, DER, "    digest = hashlib.sha256(aes_random).digest()\n    cut = len(digest) // 4\n    return digest[:cut], digest[cut:]\n", "C06.R5")
# the random bytes held in a local first, stored and hashed from the local
T("C06", "twin-client-seed-local-first", CL, None, None, edits=[
  (CL, "        self.aes_rand = random.getrandbits(128).to_bytes(16, \"big\")\n", "        aes_rand = random.getrandbits(128).to_bytes(16, \"big\")\n        self.aes_rand = aes_rand\n"),
  (CL, CLI, "        digest = hashlib.sha256(aes_rand).digest()\n        self.aes_key, self.hmac_key = digest[:16], digest[16:]\n")])
M("C06", "client-seed-local-not-carried", CL, None, None, "C06.R5", edits=[
  (CL, CLI, "        seed = random.getrandbits(128).to_bytes(16, \"big\")\n        digest = hashlib.sha256(seed).digest()\n        self.aes_key, self.hmac_key = digest[:16], digest[16:]\n")])
M("C06", "fbm-stripped-seed", C2, FBM, "        return cls.from_aes_rand(bytes(metadata.aes_rand).rstrip(b\"\\x00\"), iv=iv)\n", "C06.R5")
T("C06", "twin-enc-loose-precheck", C2, "    return cipher.encrypt(metadata.dumps())\n",
  "    data = metadata.dumps()\n    if len(data) > public_key.size_in_bytes():\n        raise ValueError(\"Plaintext is too long.\")\n    return cipher.encrypt(data)\n")

# ================================================================================================ third round
SINGLE_EXIT = ("    error = None\n    metadata = None\n    pt = PKCS1_v1_5.new(private_key).decrypt(encrypted_metadata, None)\n    if not pt:\n        error = \"Failed to RSA decrypt metadata\"\n"
               "    else:\n        try:\n            metadata = BeaconMetadata(pt)\n        except EOFError:\n            error = \"Failed to parse decrypted metadata, not enough data\"\n"
               "        else:\n            if metadata.magic != 0xBEEF:\n                error = f\"Invalid metadata magic, got {metadata.magic:08x}, expected 0xbeef\"\n"
               "    if error is not None:\n        raise ValueError(error)\n    return metadata\n")
# a single exit point: the failure is collected in a message variable and raised once at the end
T("C06", "twin-dec-single-exit-error-variable", C2, DEC, SINGLE_EXIT)
M("C06", "dec-single-exit-magic-not-collected", C2, DEC, SINGLE_EXIT.replace("                error = f\"Invalid", "                logger.warning(f\"Invalid").replace("expected 0xbeef\"\n", "expected 0xbeef\")\n"), "C06.R2")
M("C06", "dec-single-exit-sentinel-not-collected", C2, DEC, SINGLE_EXIT.replace("    if not pt:\n        error = \"Failed to RSA decrypt metadata\"\n    else:\n", "    if pt is None:\n        error = \"Failed to RSA decrypt metadata\"\n    else:\n"), "C06.R6")
M("C06", "dec-single-exit-wrong-class", C2, DEC, SINGLE_EXIT.replace("raise ValueError(error)", "raise LookupError(error)"), "C06.R2")
# the size from the field sizes of the fixed part
T("C06", "twin-enc-size-from-field-sizes", C2, "    metadata.size = len(metadata) - 8\n", "    metadata.size = sum((16, 2, 2, 4, 4, 2, 1, 1, 1, 2, 4, 4, 4, 4)) + len(metadata.info)\n")
M("C06", "enc-size-from-field-sizes-counts-size-field", C2, "    metadata.size = len(metadata) - 8\n", "    metadata.size = sum((4, 16, 2, 2, 4, 4, 2, 1, 1, 1, 2, 4, 4, 4, 4)) + len(metadata.info)\n", "C06.R1")
# NamedTuple._make, memoryview slices
T("C06", "twin-far-make", C2, FAR, "        return cls._make((*derive_aes_hmac_keys(aes_rand), iv))\n")
M("C06", "far-make-misplaced-hmac", C2, FAR, "        aes_key, hmac_key = derive_aes_hmac_keys(aes_rand)\n        return cls._make((aes_key, iv, hmac_key))\n", "C06.R5")
T("C06", "twin-derive-memoryview", C2, DER, "    view = memoryview(hashlib.sha256(aes_random).digest())\n    return bytes(view[:16]), bytes(view[16:])\n")
M("C06", "derive-memoryview-short-half", C2, DER, "    view = memoryview(hashlib.sha256(aes_random).digest())\n    return bytes(view[0:16]), bytes(view[16:31])\n", "C06.R5")
T("C06", "twin-dec-module-sentinel-none", C2, DEC, dec("    if not pt:\n" + RAISE_DEC, head="    pt = PKCS1_v1_5.new(private_key).decrypt(encrypted_metadata, _SENTINEL)\n") + "\n\n_SENTINEL = None\n")
# NOTE (engine, csverif/effects.py): the same single-exit shape with the exception *object* kept in the local
# (`error = ValueError(..)` ... `raise error`) is discharged by the C06 rules of this module, but the escape analysis behind
# C06.R6 reports `raise error::error` (class of a raised local not resolved) - not added as a twin until that is fixed.
# comparisons of the "any other magic" symbol are decided by interval / counting lemmas (rules/c06.py::_cmp_other), never by
# trying values: an ordering test that lets other magics through is caught; two *correlated* ordering tests that together
# are `!=` are not combined (undecided, silent); a range test that happens to include 0xBEEF is caught
MAGIC_TAIL = "        raise ValueError(f\"Invalid metadata magic, got {metadata.magic:08x}, expected 0xbeef\")\n    return metadata\n"
M("C06", "dec-magic-only-lower-bound", C2, DEC, dec("    if not pt:\n" + RAISE_DEC, magic="    if metadata.magic < 0xBEEF:\n" + MAGIC_TAIL), "C06.R2")
M("C06", "dec-magic-only-lower-bound-mirrored", C2, DEC, dec("    if not pt:\n" + RAISE_DEC, magic="    if 0xBEEF > metadata.magic:\n" + MAGIC_TAIL), "C06.R2")
M("C06", "dec-magic-membership-two-values", C2, DEC, dec("    if not pt:\n" + RAISE_DEC, magic="    if metadata.magic not in (0xBEEF, 0xBEEE):\n" + MAGIC_TAIL), "C06.R2")
M("C06", "dec-magic-masked-high-byte", C2, DEC, dec("    if not pt:\n" + RAISE_DEC, magic="    if metadata.magic & 0xFF00 != 0xBE00:\n" + MAGIC_TAIL), "C06.R2")
T("C06", "twin-dec-magic-two-ordering-tests", C2, DEC, dec("    if not pt:\n" + RAISE_DEC, magic="    if metadata.magic < 0xBEEF or metadata.magic > 0xBEEF:\n" + MAGIC_TAIL))
T("C06", "twin-dec-magic-full-mask", C2, DEC, dec("    if not pt:\n" + RAISE_DEC, magic="    if metadata.magic & 0xFFFFFFFF != 0xBEEF:\n" + MAGIC_TAIL))
T("C06", "twin-dec-magic-ne-and-range-check", C2, DEC, dec("    if not pt:\n" + RAISE_DEC, magic="    if metadata.magic < 0 or metadata.magic != 0xBEEF:\n" + MAGIC_TAIL))

# ================================================================================================ R8 well-formed metadata accepted
# decrypt_metadata must accept every metadata encrypt_metadata produces.  The domain of well-formed metadata comes from the
# C definition (size = 51 + len(info) in [51, 237], every other integer field any value of its width); tests of the
# parsed fields are decided over that domain by the interval lemmas - an extra sanity check that is false on the whole
# domain is silent, one that is true for part of it is a violation, one that cannot be evaluated is undecided (silent)
RET = "    return metadata\n"
SIZE_MSG = "        raise ValueError(f\"Invalid metadata size, got {metadata.size}\")\n"
MAGIC_IF = "    if metadata.magic != 0xBEEF:\n        raise ValueError(f\"Invalid metadata magic, got {metadata.magic:08x}, expected 0xbeef\")\n"


def sane(check):
    return dec("    if not pt:\n" + RAISE_DEC, magic=MAGIC_IF + check + RET)


# the size field counts from aes_rand on: the smallest value is 51 (not the 59 bytes of the whole fixed part)
T("C06", "twin-dec-size-floor-exact", C2, DEC, sane("    if metadata.size < 51:\n" + SIZE_MSG))
T("C06", "twin-dec-size-floor-total-length-unit", C2, DEC, sane("    if metadata.size + 8 < 59:\n" + SIZE_MSG))
T("C06", "twin-dec-size-floor-default-struct-minus-header", C2, DEC, sane("    if metadata.size < len(BeaconMetadata()) - 8:\n" + SIZE_MSG))
T("C06", "twin-dec-size-floor-module-constant", C2, DEC, sane("    if metadata.size < _MIN_SIZE_FIELD:\n" + SIZE_MSG) + "\n\n_MIN_SIZE_FIELD = len(BeaconMetadata().dumps()) - 2 * 4\n")
T("C06", "twin-dec-size-floor-mirrored-local", C2, DEC, sane("    declared = metadata.size\n    if 51 > declared:\n" + SIZE_MSG))
T("C06", "twin-dec-size-ceiling-above-rsa2048", C2, DEC, sane("    if metadata.size > 256 - 11 - 8:\n" + SIZE_MSG))
T("C06", "twin-dec-size-positive-nesting", C2, DEC, sane("    if metadata.size >= 51:\n        return metadata\n" + SIZE_MSG.replace("        raise", "    raise")).replace(SIZE_MSG.replace("        raise", "    raise") + RET, SIZE_MSG.replace("        raise", "    raise")))
# the plaintext of a well-formed metadata has size + 8 bytes (lemma s + a <op> s + b <=> a <op> b)
T("C06", "twin-dec-size-vs-plaintext-length", C2, DEC, sane("    if metadata.size != len(pt) - 8:\n" + SIZE_MSG))
T("C06", "twin-dec-size-vs-plaintext-length-moved-term", C2, DEC, sane("    if len(pt) < metadata.size + 8:\n" + SIZE_MSG))
M("C06", "dec-size-vs-plaintext-length-wrong-unit", C2, DEC, sane("    if metadata.size != len(pt):\n" + SIZE_MSG), "C06.R8")
M("C06", "dec-size-vs-plaintext-length-strict", C2, DEC, sane("    if len(pt) <= metadata.size + 8:\n" + SIZE_MSG), "C06.R8")
# a test that computes with the plaintext is not evaluated over the domain: undecided, not an alarm
T("C06", "twin-dec-plaintext-content-test-undecided", C2, DEC, sane("    if pt[:2] != b\"\\x00\\x00\":\n" + SIZE_MSG))
M("C06", "dec-size-floor-total-length-shifted", C2, DEC, sane("    if metadata.size - 59 < 0:\n" + SIZE_MSG), "C06.R8")
M("C06", "dec-size-floor-default-struct-dumps", C2, DEC, sane("    if metadata.size < len(BeaconMetadata().dumps()):\n" + SIZE_MSG), "C06.R8")
M("C06", "dec-size-floor-off-by-one", C2, DEC, sane("    if metadata.size <= 51:\n" + SIZE_MSG), "C06.R8")
M("C06", "dec-size-ceiling-rsa1024-only", C2, DEC, sane("    if metadata.size > 128 - 11 - 8:\n" + SIZE_MSG), "C06.R8")
M("C06", "dec-size-positive-nesting-wrong-unit", C2, DEC, sane("    if metadata.size >= 59:\n        return metadata\n" + SIZE_MSG.replace("        raise", "    raise")).replace(SIZE_MSG.replace("        raise", "    raise") + RET, SIZE_MSG.replace("        raise", "    raise")), "C06.R8")
M("C06", "dec-size-unconditional-reject", C2, DEC, sane("    if metadata.size >= 0:\n" + SIZE_MSG), "C06.R8")
# the other fields take every value of their width
M("C06", "dec-rejects-zero-pid", C2, DEC, sane("    if not metadata.pid:\n        raise ValueError(\"Invalid metadata, no process id\")\n"), "C06.R8")
M("C06", "dec-rejects-unknown-major-version", C2, DEC, sane("    if metadata.ver_major not in (5, 6, 10):\n        raise ValueError(f\"Invalid metadata, unsupported Windows version {metadata.ver_major}\")\n"), "C06.R8")
M("C06", "dec-rejects-high-port", C2, DEC, sane("    port = metadata.port\n    if port >= 0x8000:\n        raise ValueError(f\"Invalid metadata, port {port} out of range\")\n"), "C06.R8")
M("C06", "dec-asserts-flag-range", C2, DEC, sane("    assert metadata.flag < 0x10, \"unknown flag bits\"\n"), "C06.R8")
T("C06", "twin-dec-port-range-is-whole-width", C2, DEC, sane("    if metadata.port > 0xFFFF or metadata.flag < 0:\n        raise ValueError(\"Invalid metadata, field out of range\")\n"))
# the plaintext of a well-formed metadata has at least the 59 fixed bytes; a check of the blob against the key is not
# evaluated (undecided, silent); a rejection that a local handler translates is still a rejection
T("C06", "twin-dec-plaintext-shorter-than-fixed-part", C2, DEC, dec("    if not pt or len(pt) < 59:\n" + RAISE_DEC))
T("C06", "twin-dec-blob-length-vs-key-undecided", C2, DEC, dec("    if not pt:\n" + RAISE_DEC, head="    if len(encrypted_metadata) != private_key.size_in_bytes():\n" + RAISE_DEC.replace("        ", "        ", 1) + "    cipher = PKCS1_v1_5.new(private_key)\n    pt = cipher.decrypt(encrypted_metadata, None)\n"))
M("C06", "dec-plaintext-min-length-counts-rsa-padding", C2, DEC, dec("    if not pt or len(pt) < 59 + 11:\n" + RAISE_DEC), "C06.R8")
M("C06", "dec-size-check-inside-parse-try", C2, DEC,
  dec("    if not pt:\n" + RAISE_DEC, parse="    try:\n        metadata = BeaconMetadata(pt)\n        if metadata.size < 59:\n            raise EOFError(\"truncated\")\n    except EOFError:\n"
      "        raise ValueError(\"Failed to parse decrypted metadata, not enough data\")\n"), "C06.R8")
T("C06", "twin-dec-size-check-inside-parse-try", C2, DEC,
  dec("    if not pt:\n" + RAISE_DEC, parse="    try:\n        metadata = BeaconMetadata(pt)\n        if metadata.size < 51:\n            raise EOFError(\"truncated\")\n    except EOFError:\n"
      "        raise ValueError(\"Failed to parse decrypted metadata, not enough data\")\n"))

# ================================================================================================ sixth round
# the fixed part of the size field as a grammar-level `#define` of the C definition (folded like a numeric literal; a field
# of the structure shadows a constant of the same name, as in dissect.cstruct)
STRUCT_HEAD = "struct BeaconMetadata {\n    uint32 magic;\n"
INFO = "    char info[size - 51];"
T("C06", "twin-cdef-define-fixed-size", CC, None, None, edits=[
    (CC, STRUCT_HEAD, "#define METADATA_COUNTED_FIXED 51\n\n" + STRUCT_HEAD), (CC, INFO, "    char info[size - METADATA_COUNTED_FIXED];")])
T("C06", "twin-cdef-define-hex-commuted", CC, None, None, edits=[
    (CC, STRUCT_HEAD, "#define METADATA_COUNTED_FIXED 0x33   // bytes after the size field\n" + STRUCT_HEAD), (CC, INFO, "    char info[-METADATA_COUNTED_FIXED + size];")])
T("C06", "twin-cdef-define-expression", CC, None, None, edits=[
    (CC, STRUCT_HEAD, "#define METADATA_FIXED 59\n#define METADATA_HEADER (4 + 4)\n#define METADATA_COUNTED_FIXED (METADATA_FIXED - METADATA_HEADER)\n" + STRUCT_HEAD),
    (CC, INFO, "    char info[size - METADATA_COUNTED_FIXED];")])
T("C06", "twin-cdef-two-defines-in-count", CC, None, None, edits=[
    (CC, STRUCT_HEAD, "#define METADATA_FIXED 59\n#define METADATA_HEADER 8\n" + STRUCT_HEAD), (CC, INFO, "    char info[size - METADATA_FIXED + METADATA_HEADER];")])
M("C06", "cdef-define-counts-whole-fixed-part", CC, None, None, "C06.R1", edits=[
    (CC, STRUCT_HEAD, "#define METADATA_FIXED_SIZE 59\n\n" + STRUCT_HEAD), (CC, INFO, "    char info[size - METADATA_FIXED_SIZE];")])
M("C06", "cdef-define-expression-off-by-header", CC, None, None, "C06.R1", edits=[
    (CC, STRUCT_HEAD, "#define METADATA_FIXED 59\n#define METADATA_COUNTED_FIXED (METADATA_FIXED - 4)\n" + STRUCT_HEAD), (CC, INFO, "    char info[size - METADATA_COUNTED_FIXED];")])
M("C06", "cdef-define-dec-size-floor-follows-define", CC, None, None, "C06.R8", edits=[
    (CC, STRUCT_HEAD, "#define METADATA_COUNTED_FIXED 51\n" + STRUCT_HEAD), (CC, INFO, "    char info[size - METADATA_COUNTED_FIXED];"),
    (C2, DEC, sane("    if metadata.size <= 51:\n" + SIZE_MSG))])
# a #define whose value is not an integer expression the rule folds: the identifier stays unresolved - undecided, silent
T("C06", "twin-cdef-define-not-folded-undecided", CC, None, None, edits=[
    (CC, STRUCT_HEAD, "#define METADATA_COUNTED_FIXED (102 / 2)\n" + STRUCT_HEAD), (CC, INFO, "    char info[size - METADATA_COUNTED_FIXED];")])

# the EOFError -> ValueError translation of the parse as a generator-based context manager (contextlib.contextmanager): the
# escape analysis runs the generator's body with the with-body in the place of its `yield`
PARSE_TRY = ("    try:\n        metadata = BeaconMetadata(pt)\n    except EOFError:\n"
             "        raise ValueError(\"Failed to parse decrypted metadata, not enough data\")\n")
DEC_DEF = "def decrypt_metadata(encrypted_metadata: bytes, private_key: RSA.RsaKey) -> BeaconMetadata:\n"
IMP = "import base64\n"


def cm(body, deco="@contextlib.contextmanager", imp="import base64\nimport contextlib\n", name="_translate_eof"):
    return [(C2, IMP, imp), (C2, DEC_DEF, f"{deco}\ndef {name}(message):\n{body}\n\n" + DEC_DEF),
            (C2, PARSE_TRY, f"    with {name}(\"Failed to parse decrypted metadata, not enough data\"):\n        metadata = BeaconMetadata(pt)\n")]


T("C06", "twin-dec-eof-translation-contextmanager", C2, None, None, edits=cm("    try:\n        yield\n    except EOFError:\n        raise ValueError(message)\n"))
T("C06", "twin-dec-eof-translation-contextmanager-imported-name", C2, None, None,
  edits=cm("    try:\n        yield None\n    except (EOFError, IndexError) as e:\n        raise ValueError(message) from e\n", deco="@contextmanager", imp="import base64\nfrom contextlib import contextmanager\n"))
M("C06", "dec-contextmanager-catches-other-class", C2, None, None, "C06.R6", edits=cm("    try:\n        yield\n    except KeyError:\n        raise ValueError(message)\n"))
M("C06", "dec-contextmanager-translates-to-other-class", C2, None, None, "C06.R6", edits=cm("    try:\n        yield\n    except EOFError:\n        raise RuntimeError(message)\n"))
M("C06", "dec-contextmanager-reraises", C2, None, None, "C06.R6", edits=cm("    try:\n        yield\n    except EOFError:\n        logger.debug(message)\n        raise\n"))
M("C06", "dec-contextmanager-yield-outside-try", C2, None, None, "C06.R6", edits=cm("    try:\n        logger.debug(message)\n    except EOFError:\n        raise ValueError(message)\n    yield\n"))
# a class-based context manager: an `__exit__` that raises / may return a truthy value changes the exception flow of the body
# in a way the rule does not follow (undecided, silent); an `__exit__` that does neither filters nothing
def cmc(exit_body):
    return [(C2, DEC_DEF, "class _TranslateEof:\n    def __init__(self, message):\n        self.message = message\n\n    def __enter__(self):\n        return self\n\n"
             "    def __exit__(self, exc_type, exc, tb):\n" + exit_body + "\n\n" + DEC_DEF),
            (C2, PARSE_TRY, "    with _TranslateEof(\"Failed to parse decrypted metadata, not enough data\"):\n        metadata = BeaconMetadata(pt)\n")]


T("C06", "twin-dec-eof-translation-class-contextmanager-undecided", C2, None, None,
  edits=cmc("        if exc_type is not None and issubclass(exc_type, EOFError):\n            raise ValueError(self.message)\n        return False\n"))
M("C06", "dec-class-contextmanager-only-logs", C2, None, None, "C06.R6",
  edits=cmc("        if exc_type is not None and issubclass(exc_type, EOFError):\n            logger.debug(self.message)\n        return False\n"))
M("C06", "dec-class-contextmanager-exit-raises-other-class", C2, None, None, "C06.R6",
  edits=cmc("        if exc_type is not None and issubclass(exc_type, EOFError):\n            raise RuntimeError(self.message)\n        return False\n"))

# ================================================================================================ seventh round
# R1: every integer field of the metadata is an unsigned quantity of the transported width.  A signed type of the same size
# keeps the layout, the fixed size and every captured metadata, but the upper half of the values can neither be serialised
# nor comes back unchanged; type aliases of the definition language are the same type
M("C06", "cdef-pid-signed", CC, "    uint32 pid;\n", "    int32 pid;\n", "C06.R1")
M("C06", "cdef-port-signed-alias", CC, "    uint16 port;\n", "    SHORT port;          // listener port\n", "C06.R1")
M("C06", "cdef-ip-signed-long", CC, "    uint32 ip;\n", "    LONG ip;\n", "C06.R1")
M("C06", "cdef-widths-exchanged-same-total", CC, None, None, "C06.R1", edits=[
    (CC, "    uint8 flag;\n", "    uint16 flag;\n"), (CC, "    uint16 ver_build;\n", "    uint8 ver_build;\n")])
T("C06", "twin-cdef-windows-type-aliases", CC, None, None, edits=[
    (CC, "    uint32 pid;\n", "    DWORD pid;\n"), (CC, "    uint16 port;\n", "    WORD port;\n"), (CC, "    uint8 flag;\n", "    BYTE flag;\n"),
    (CC, "    uint32 bid;\n", "    ULONG bid;           // Beacon ID\n")])

# R9: the keys handed out for a metadata are those of that metadata: no element of state that outlives the call (registry,
# memo) selected by something that does not determine the 16 random bytes
REG = "_DERIVED_KEYS: dict = {}\n\n\n"
M("C06", "keys-registry-by-bid-pid-in-recover", C2, None, None, "C06.R9", edits=[
    (C2, DEC_DEF, REG + DEC_DEF),
    (C2, REC, "                    known = _DERIVED_KEYS.get((metadata.bid, metadata.pid))\n                    if known is None:\n"
              "                        aes_key, hmac_key = derive_aes_hmac_keys(metadata.aes_rand)\n"
              "                        known = BeaconKeys(aes_key, hmac_key)\n                        _DERIVED_KEYS[metadata.bid, metadata.pid] = known\n"
              "                    self.beacon_keys = known\n")])
M("C06", "keys-registry-try-keyerror-setdefault", C2, None, None, "C06.R9", edits=[
    (C2, DEC_DEF, REG + DEC_DEF),
    (C2, FBM, "        try:\n            return _DERIVED_KEYS[metadata.bid]\n        except KeyError:\n"
              "            return _DERIVED_KEYS.setdefault(metadata.bid, cls.from_aes_rand(metadata.aes_rand, iv=iv))\n")])
M("C06", "keys-memo-by-iv-on-class", C2, FAR,
  "        if iv in cls._memo:\n            return cls._memo[iv]\n        aes_key, hmac_key = derive_aes_hmac_keys(aes_rand)\n"
  "        keys = cls._memo[iv] = cls(aes_key=aes_key, hmac_key=hmac_key, iv=iv)\n        return keys\n", "C06.R9")
M("C06", "keys-instance-registry-by-beacon-id", C2, REC,
  "                    beacon_id = metadata.bid\n                    if beacon_id not in self.metadata_cache:\n"
  "                        self.metadata_cache[beacon_id] = BeaconKeys(*derive_aes_hmac_keys(metadata.aes_rand))\n"
  "                    self.beacon_keys = self.metadata_cache[beacon_id]\n", "C06.R9")
# a memo keyed by the random bytes themselves (alone or as part of the key) is not judged (the stored elements are not
# followed): undecided, silent; keys the caller supplies / a plain conditional derivation are no look-up at all
T("C06", "twin-keys-memo-by-aes-rand-undecided", C2, None, None, edits=[
    (C2, DEC_DEF, REG + DEC_DEF),
    (C2, FBM, "        keys = _DERIVED_KEYS.get(metadata.aes_rand)\n        if keys is None:\n"
              "            keys = _DERIVED_KEYS[metadata.aes_rand] = cls.from_aes_rand(metadata.aes_rand, iv=iv)\n        return keys\n")])
T("C06", "twin-keys-memo-by-bid-and-aes-rand-undecided", C2, None, None, edits=[
    (C2, DEC_DEF, REG + DEC_DEF),
    (C2, FBM, "        seed = bytes(metadata.aes_rand)\n        key = (metadata.bid, seed, iv)\n        try:\n            return _DERIVED_KEYS[key]\n        except KeyError:\n"
              "            return _DERIVED_KEYS.setdefault(key, cls.from_aes_rand(seed, iv=iv))\n")])
T("C06", "twin-keys-local-table-not-state", C2, FBM,
  "        made = {}\n        made[metadata.bid] = cls.from_aes_rand(metadata.aes_rand, iv=iv)\n        return made[metadata.bid]\n")
T("C06", "twin-keys-conditional-derivation", C2, REC,
  "                    fresh = None\n                    if metadata.aes_rand:\n                        fresh = BeaconKeys(*derive_aes_hmac_keys(metadata.aes_rand))\n"
  "                    self.beacon_keys = fresh or self.beacon_keys\n")
# a cache keyed by the request the metadata was recovered from: the request determines the metadata (the seed is computed
# in the function, not a parameter), nothing is claimed about such a key: undecided, silent
T("C06", "twin-keys-cache-by-request-undecided", C2, REC,
  "                    if http not in self.metadata_cache:\n"
  "                        self.metadata_cache[http] = BeaconKeys(*derive_aes_hmac_keys(metadata.aes_rand))\n"
  "                    self.beacon_keys = self.metadata_cache[http]\n")

# ================================================================================ wave 8: table-driven checks, R10, R11
# ---- R2 / R8: the magic test as a predicate function / a table of checks (the unrolled table leaves a call of a
# single-expression package function: summarised by argument binding; a predicate that is not a single expression, or a
# table the loader does not unroll, is not located: undecided, silent)
MAGIC_IF = ("    if metadata.magic != 0xBEEF:\n        raise ValueError(f\"Invalid metadata magic, got {metadata.magic:08x}, expected 0xbeef\")\n"
            "    return metadata\n")
T("C06", "twin-magic-predicate-lambda-table", C2, None, None, edits=[
    (C2, DEC_DEF, "_CHECKS = ((lambda m: m.magic == 0xBEEF, \"Invalid metadata magic, got {0.magic:08x}\"),)\n\n\n" + DEC_DEF),
    (C2, MAGIC_IF, "    for accept, template in _CHECKS:\n        if not accept(metadata):\n            raise ValueError(template.format(metadata))\n    return metadata\n")])
T("C06", "twin-magic-predicate-function-direct", C2, None, None, edits=[
    (C2, DEC_DEF, "def _magic_mismatch(parsed, wanted=0xBEEF):\n    return wanted != parsed.magic\n\n\n_BAD_MAGIC = _magic_mismatch\n\n\n" + DEC_DEF),
    (C2, MAGIC_IF, "    if _BAD_MAGIC(metadata):\n        raise ValueError(f\"Invalid metadata magic, got {metadata.magic:08x}, expected 0xbeef\")\n    return metadata\n")])
T("C06", "twin-magic-predicate-multi-statement-undecided", C2, None, None, edits=[
    (C2, DEC_DEF, "def _has_magic(parsed):\n    for want in (0xBEEF,):\n        if parsed.magic == want:\n            return True\n    return False\n\n\n_HAS_MAGIC = _has_magic\n\n\n" + DEC_DEF),
    (C2, MAGIC_IF, "    if not _HAS_MAGIC(metadata):\n        raise ValueError(f\"Invalid metadata magic, got {metadata.magic:08x}, expected 0xbeef\")\n    return metadata\n")])
# the predicate of the table tests the wrong constant / is inverted: located through the summary, violated
M("C06", "magic-predicate-table-wrong-constant", C2, None, None, "C06.R2", edits=[
    (C2, DEC_DEF, "def _has_beacon_magic(m):\n    return m.magic == 0xBEEE\n\n\n_CHECKS = ((_has_beacon_magic, \"Invalid metadata magic, got {0.magic:08x}\"),)\n\n\n" + DEC_DEF),
    (C2, MAGIC_IF, "    for accept, template in _CHECKS:\n        if not accept(metadata):\n            raise ValueError(template.format(metadata))\n    return metadata\n")])
M("C06", "magic-predicate-table-lost-negation", C2, None, None, "C06.R2", edits=[
    (C2, DEC_DEF, "def _has_beacon_magic(m):\n    return m.magic == 0xBEEF\n\n\n_CHECKS = ((_has_beacon_magic, \"Invalid metadata magic, got {0.magic:08x}\"),)\n\n\n" + DEC_DEF),
    (C2, MAGIC_IF, "    for accept, template in _CHECKS:\n        if accept(metadata):\n            raise ValueError(template.format(metadata))\n    return metadata\n")])

# ---- R10: partial operations on the free-form info field on the accept path of decrypt_metadata
RETM = "        raise ValueError(f\"Invalid metadata magic, got {metadata.magic:08x}, expected 0xbeef\")\n    return metadata\n"
RETM_HEAD = "        raise ValueError(f\"Invalid metadata magic, got {metadata.magic:08x}, expected 0xbeef\")\n"
M("C06", "accept-path-indexes-split-info", C2, RETM,
  RETM_HEAD + "    parts = metadata.info.split(b\"\\t\")\n    logger.debug(\"check-in of %r\", parts[1])\n    return metadata\n", "C06.R10")
M("C06", "accept-path-strict-decode-info", C2, RETM,
  RETM_HEAD + "    logger.debug(\"check-in: %s\", metadata.info.decode())\n    return metadata\n", "C06.R10")
M("C06", "accept-path-first-byte-of-info", C2, RETM,
  RETM_HEAD + "    info = metadata.info.strip()\n    if info[0] == 0:\n        logger.debug(\"binary info\")\n    return metadata\n", "C06.R10")
M("C06", "accept-path-unpack-rsplit-star", C2, RETM,
  RETM_HEAD + "    *_rest, user, process = metadata.info.rsplit(b\"\\t\", 2)\n    logger.debug(\"%r %r\", user, process)\n    return metadata\n", "C06.R10")
# total uses of the info field, a caught failure, partition (always three parts): silent
T("C06", "twin-accept-path-total-uses-of-info", C2, RETM,
  RETM_HEAD + "    computer, _sep, rest = metadata.info.partition(b\"\\t\")\n    first = metadata.info.split(b\"\\t\")[0]\n"
  "    logger.debug(\"check-in of %r %r %r %s\", computer, first, metadata.info[:8], metadata.info.decode(errors=\"replace\"))\n    return metadata\n")
T("C06", "twin-accept-path-unpack-caught", C2, RETM,
  RETM_HEAD + "    try:\n        computer, user, process = metadata.info.split(b\"\\t\")\n    except ValueError:\n        computer = user = process = b\"?\"\n"
  "    logger.debug(\"%r %r %r\", computer, user, process)\n    return metadata\n")
T("C06", "twin-accept-path-unpack-guarded-undecided", C2, RETM,
  RETM_HEAD + "    if metadata.info.count(b\"\\t\") == 2:\n        computer, user, process = metadata.info.split(b\"\\t\")\n"
  "        logger.debug(\"%r %r %r\", computer, user, process)\n    return metadata\n")

# ---- R11: the derivation must not depend on the content of the seed
M("C06", "derive-refuses-constant-seed", C2, DER,
  "    if aes_random == b\"\\x00\" * 16:\n        raise ValueError(\"aes_random not initialised\")\n" + DER, "C06.R11")
M("C06", "from-metadata-all-bytes-guard-returns-none", C2, FBM,
  "        if metadata.aes_rand is not None and all(metadata.aes_rand):\n            return None\n" + FBM, "C06.R11")
M("C06", "from-aes-rand-asserts-any-seed-byte", C2, FAR,
  "        if len(aes_rand) == 16:\n            assert any(aes_rand), \"aes_rand not set\"\n" + FAR, "C06.R11")
# the same assertion where reaching it depends on other arguments: not decided, silent
T("C06", "twin-init-asserts-any-seed-byte-undecided", C2, INIT,
  "            assert any(aes_rand)\n" + INIT)
# shape tests of the seed (None / empty / length / type), a content test that only logs: silent
T("C06", "twin-seed-shape-tests", C2, FBM,
  "        seed = metadata.aes_rand\n        if seed is None or not seed or len(seed) != 16 or not isinstance(seed, bytes):\n"
  "            raise ValueError(\"BeaconMetadata has no 16 byte aes_rand\")\n        return cls.from_aes_rand(seed, iv=iv)\n")
T("C06", "twin-seed-content-test-only-logs", C2, FBM,
  "        if not any(metadata.aes_rand):\n            logger.debug(\"all-zero aes_rand\")\n" + FBM)
T("C06", "twin-seed-content-test-unrecognised-undecided", C2, FBM,
  "        if metadata.aes_rand.count(0) > 16:\n            raise ValueError(\"impossible\")\n" + FBM)

# ------------------------------------------------------------------------------------------------ R12 (round 8, C06o)
_MAGIC_OLD = ("    if metadata.magic != 0xBEEF:\n"
              "        raise ValueError(f\"Invalid metadata magic, got {metadata.magic:08x}, expected 0xbeef\")\n")
M("C06", "raw-magic-test-two-byte-suffix", "c2.py", _MAGIC_OLD,
  "    if not pt[:4].endswith(b\"\\xbe\\xef\"):\n        raise ValueError(\"Invalid metadata magic\")\n", "C06.R12")
M("C06", "raw-magic-test-narrow-slice", "c2.py", _MAGIC_OLD,
  "    if pt[2:4] != b\"\\xbe\\xef\":\n        raise ValueError(\"Invalid metadata magic\")\n", "C06.R12")
T("C06", "twin-raw-magic-test-whole-field", "c2.py", _MAGIC_OLD,
  "    if pt[:4] != b\"\\x00\\x00\\xbe\\xef\":\n        raise ValueError(\"Invalid metadata magic\")\n")
