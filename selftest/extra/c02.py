"""C02 - extra corpus: twins for the kinds of refactoring the path-based / role-based rules are robust against (loop
rewrites, merged or negated guards, extracted helpers with early returns, getattr/setattr cache helper with **kwargs,
equivalent int.from_bytes, hoisted attribute reads, renamed locals, conditional expressions, tell/seek give-back,
enumerate, temporaries) and mutants for every restructured rule - several applied on top of a refactored shape."""

from selftest.corpus import M, T

F = "beacon.py"

# ------------------------------------------------------------------------------------------------ source anchors
PEEK = (
    '    while True:\n'
    '        peek = fobj.read(2)[:2]\n'
    '        if peek == b"\\x00\\x00":\n'
    '            # end of beacon config\n'
    '            break\n'
)
PARSE = (
    '        try:\n'
    '            fobj.seek(-2, io.SEEK_CUR)\n'
    '            setting = Setting(fobj)\n'
    '        except EOFError:\n'
    '            break\n'
)
UA = (
    '        if setting.index == BeaconSetting.SETTING_USERAGENT:\n'
    '            # Handle cases where User-Agent is too long in some configs\n'
    '            # eg: fcece52fd030ca66043ae29af2116a79\n'
    '            if setting.length == 0x80:\n'
    '                if len(setting.value.rstrip(b"\\x00")) >= 0x80:\n'
    '                    while True:\n'
    '                        x = fobj.read(1)\n'
    '                        if not x:\n'
    '                            # end of data before the NUL terminator\n'
    '                            break\n'
    '                        if x == b"\\x00":\n'
    '                            fobj.seek(-1, io.SEEK_CUR)\n'
    '                            break\n'
    '                        setting.value += x\n'
)
WM = (
    '        elif setting.index == BeaconSetting.SETTING_WATERMARKHASH:\n'
    '            # Handle deprecated setting INJECT_OPTIONS -> WATERMARKHASH\n'
    '            # We can identify the difference using TYPE_SHORT vs TYPE_PTR.\n'
    '            if setting.type == SettingsType.TYPE_SHORT:\n'
    '                setting.index = DeprecatedBeaconSetting.SETTING_INJECT_OPTIONS\n'
)
ITER_DEF = 'def iter_settings(fobj: Union[bytes, BinaryIO]) -> Iterator["Setting"]:\n'

SMAP = (
    '        settings = OrderedDict()\n'
    '        for setting in self.settings_tuple:\n'
    '            val = setting.value\n'
    '            if index_type == "name":\n'
    '                key = setting.index.name or str(setting.index).replace(".", "_")\n'
    '            elif index_type == "const":\n'
    '                key = setting.index.value\n'
    '            else:\n'
    '                key = setting.index\n'
    '            if parse or pretty:\n'
    '                if setting.type == SettingsType.TYPE_SHORT:\n'
    '                    val = u16be(val)\n'
    '                elif setting.type == SettingsType.TYPE_INT:\n'
    '                    val = u32be(val)\n'
    '            if pretty:\n'
    '                pretty_func = SETTING_TO_PRETTYFUNC.get(setting.index)\n'
    '                if pretty_func:\n'
    '                    val = pretty_func(val)\n'
    '            settings[key] = val\n'
    '        return MappingProxyType(settings)\n'
)
KEYSEL = (
    '            if index_type == "name":\n'
    '                key = setting.index.name or str(setting.index).replace(".", "_")\n'
    '            elif index_type == "const":\n'
    '                key = setting.index.value\n'
    '            else:\n'
    '                key = setting.index\n'
)
CONV = (
    '                if setting.type == SettingsType.TYPE_SHORT:\n'
    '                    val = u16be(val)\n'
    '                elif setting.type == SettingsType.TYPE_INT:\n'
    '                    val = u32be(val)\n'
)
PRETTY = (
    '            if pretty:\n'
    '                pretty_func = SETTING_TO_PRETTYFUNC.get(setting.index)\n'
    '                if pretty_func:\n'
    '                    val = pretty_func(val)\n'
)
CLASS = 'class BeaconConfig:\n    """A :class:`BeaconConfig` object represents a single Beacon configuration\n'


def _view(slot, args):
    return f'        if self.{slot} is None:\n            self.{slot} = self.settings_map({args})\n        return self.{slot}\n'


V_RAW = _view("_raw_settings", 'index_type="name"')
V_RAWI = _view("_raw_settings_by_index", 'index_type="const"')
V_SET = _view("_settings", 'index_type="name", pretty=True')
V_SETI = _view("_settings_by_index", 'index_type="const", pretty=True')
MAP_RET = '            settings[key] = val\n        return MappingProxyType(settings)\n'

# ------------------------------------------------------------------------------------------------ refactored shapes
# iter_settings: conditional while instead of while True/break, merged guards, assignment-expression inner loop
PEEK_COND = '    while fobj.read(2)[:2] != b"\\x00\\x00":\n'
UA_MERGED = (
    '        if (\n'
    '            setting.index == BeaconSetting.SETTING_USERAGENT\n'
    '            and setting.length == 0x80\n'
    '            and len(setting.value.rstrip(b"\\x00")) >= 0x80\n'
    '        ):\n'
    '            while next_byte := fobj.read(1):\n'
    '                if next_byte == b"\\x00":\n'
    '                    fobj.seek(-1, io.SEEK_CUR)\n'
    '                    break\n'
    '                setting.value += next_byte\n'
)
WM_MERGED = (
    '        elif setting.index == BeaconSetting.SETTING_WATERMARKHASH and setting.type == SettingsType.TYPE_SHORT:\n'
    '            setting.index = DeprecatedBeaconSetting.SETTING_INJECT_OPTIONS\n'
)
# iter_settings: the User-Agent continuation as an extracted helper with early returns
UA_HELPER = (
    'def _read_overlong_useragent(fobj: BinaryIO, setting: "Setting") -> None:\n'
    '    if setting.length != 0x80:\n'
    '        return\n'
    '    if len(setting.value.rstrip(b"\\x00")) < 0x80:\n'
    '        return\n'
    '    while True:\n'
    '        x = fobj.read(1)\n'
    '        if not x:\n'
    '            return\n'
    '        if x == b"\\x00":\n'
    '            fobj.seek(-1, io.SEEK_CUR)\n'
    '            return\n'
    '        setting.value += x\n'
    '\n\n'
)
UA_CALL = '        if setting.index == BeaconSetting.SETTING_USERAGENT:\n            _read_overlong_useragent(fobj, setting)\n'
# settings_map: per-setting body split into three module-level helpers with early returns
SMAP_HELPERS = (
    'def _settings_map_key(setting, index_type):\n'
    '    if index_type == "name":\n'
    '        return setting.index.name or str(setting.index).replace(".", "_")\n'
    '    if index_type == "const":\n'
    '        return setting.index.value\n'
    '    return setting.index\n'
    '\n\n'
    'def _parse_numeric_value(setting, val):\n'
    '    if setting.type == SettingsType.TYPE_SHORT:\n'
    '        return u16be(val)\n'
    '    if setting.type == SettingsType.TYPE_INT:\n'
    '        return u32be(val)\n'
    '    return val\n'
    '\n\n'
    'def _prettify_value(setting, val):\n'
    '    pretty_func = SETTING_TO_PRETTYFUNC.get(setting.index)\n'
    '    if pretty_func:\n'
    '        return pretty_func(val)\n'
    '    return val\n'
    '\n\n'
)
SMAP_CALLS = (
    '        settings = OrderedDict()\n'
    '        for setting in self.settings_tuple:\n'
    '            val = setting.value\n'
    '            key = _settings_map_key(setting, index_type)\n'
    '            if parse or pretty:\n'
    '                val = _parse_numeric_value(setting, val)\n'
    '            if pretty:\n'
    '                val = _prettify_value(setting, val)\n'
    '            settings[key] = val\n'
    '        return MappingProxyType(settings)\n'
)
# settings_map: int.from_bytes on a slice, attributes read once into locals, renamed value local
SMAP_FROMBYTES = (
    '        settings = OrderedDict()\n'
    '        for setting in self.settings_tuple:\n'
    '            value: Any = setting.value\n'
    '            index = setting.index\n'
    '            if index_type == "name":\n'
    '                key = index.name or str(index).replace(".", "_")\n'
    '            elif index_type == "const":\n'
    '                key = index.value\n'
    '            else:\n'
    '                key = index\n'
    '            if parse or pretty:\n'
    '                setting_type = setting.type\n'
    '                if setting_type == SettingsType.TYPE_SHORT:\n'
    '                    value = int.from_bytes(value[:2], byteorder="big", signed=False)\n'
    '                elif setting_type == SettingsType.TYPE_INT:\n'
    '                    value = int.from_bytes(value[:4], byteorder="big", signed=False)\n'
    '            if pretty:\n'
    '                pretty_func = SETTING_TO_PRETTYFUNC.get(index)\n'
    '                if pretty_func:\n'
    '                    value = pretty_func(value)\n'
    '            settings[key] = value\n'
    '        return MappingProxyType(settings)\n'
)
# cached views: one private helper using getattr/setattr and **kwargs, early return
CACHE_HELPER = (
    '    def _cached_settings_map(self, cache_attr: str, **settings_map_kwargs: Any) -> Mapping[Any, Any]:\n'
    '        cached = getattr(self, cache_attr)\n'
    '        if cached is not None:\n'
    '            return cached\n'
    '        cached = self.settings_map(**settings_map_kwargs)\n'
    '        setattr(self, cache_attr, cached)\n'
    '        return cached\n'
    '\n'
)


def _cache_edits(helper=CACHE_HELPER, settings_args='index_type="name", pretty=True'):
    return [
        (F, MAP_RET, MAP_RET + "\n" + helper),
        (F, V_RAW, '        return self._cached_settings_map("_raw_settings", index_type="name")\n'),
        (F, V_RAWI, '        return self._cached_settings_map("_raw_settings_by_index", index_type="const")\n'),
        (F, V_SET, f'        return self._cached_settings_map("_settings", {settings_args})\n'),
        (F, V_SETI, '        return self._cached_settings_map("_settings_by_index", index_type="const", pretty=True)\n'),
    ]


def TT(id, edits):
    T("C02", id, F, "", "", edits=edits)


def MM(id, expect, edits):
    M("C02", id, F, "", "", expect, edits=edits)


# ================================================================================================ twins
TT("twin-cond-while-terminator", [(F, PEEK, PEEK_COND)])
TT("twin-merged-guards-walrus", [(F, UA + WM, UA_MERGED + WM_MERGED)])
TT("twin-cond-while-and-merged", [(F, PEEK, PEEK_COND), (F, UA + WM, UA_MERGED + WM_MERGED)])
TT("twin-ua-helper-early-returns", [(F, ITER_DEF, UA_HELPER + ITER_DEF), (F, UA, UA_CALL)])
TT("twin-tell-seek-giveback", [
    (F, '        peek = fobj.read(2)[:2]\n', '        start = fobj.tell()\n        peek = fobj.read(2)[:2]\n'),
    (F, '            fobj.seek(-2, io.SEEK_CUR)\n', '            fobj.seek(start)\n'),
])
TT("twin-seek-whence-literal", [(F, '            fobj.seek(-2, io.SEEK_CUR)\n', '            fobj.seek(-2, 1)\n')])
TT("twin-eof-returns", [(F, '        except EOFError:\n            break\n', '        except EOFError:\n            return\n')])
TT("twin-rename-guard-membership", [(F, 'TYPE_SHORT vs TYPE_PTR.\n            if setting.type == SettingsType.TYPE_SHORT:\n', 'TYPE_SHORT vs TYPE_PTR.\n            if setting.type in (SettingsType.TYPE_SHORT,):\n')])
TT("twin-ua-negated-guard", [(F, '            if setting.length == 0x80:\n                if len(', '            if not setting.length != 0x80:\n                if len(')])
TT("twin-smap-helpers-early-returns", [(F, CLASS, SMAP_HELPERS + CLASS), (F, SMAP, SMAP_CALLS)])
TT("twin-int-from-bytes-hoisted-attrs", [(F, SMAP, SMAP_FROMBYTES)])
TT("twin-from-bytes-positional", [(F, '                    val = u32be(val)\n', '                    val = int.from_bytes(val[0:4], "big")\n')])
TT("twin-conversion-ifexp", [(F, CONV, '                is_short = setting.type == SettingsType.TYPE_SHORT\n'
                                         '                val = u16be(val) if is_short else (u32be(val) if setting.type == SettingsType.TYPE_INT else val)\n')])
TT("twin-conversion-type-first", [(F, '            if parse or pretty:\n' + CONV,
                                   '            if setting.type == SettingsType.TYPE_SHORT:\n'
                                   '                if parse or pretty:\n'
                                   '                    val = u16be(val)\n'
                                   '            elif setting.type == SettingsType.TYPE_INT and (parse or pretty):\n'
                                   '                val = u32be(val)\n')])
TT("twin-convert-flag-hoisted", [(F, '        settings = OrderedDict()\n        for setting in self.settings_tuple:\n', '        settings = OrderedDict()\n        convert = parse or pretty\n        for setting in self.settings_tuple:\n'),
                                 (F, '            if parse or pretty:\n', '            if convert:\n')])
TT("twin-key-fallback-statement", [(F, '                key = setting.index.name or str(setting.index).replace(".", "_")\n',
                                    '                key = setting.index.name\n                if not key:\n                    key = str(setting.index).replace(".", "_")\n')])
TT("twin-pretty-subscript", [(F, PRETTY, '            if pretty and setting.index in SETTING_TO_PRETTYFUNC:\n                val = SETTING_TO_PRETTYFUNC[setting.index](val)\n')])
TT("twin-enumerate-loop", [(F, '        for setting in self.settings_tuple:\n            val = setting.value\n', '        for _pos, setting in enumerate(self.settings_tuple):\n            val = setting.value\n')])
TT("twin-proxy-temp", [(F, '        return MappingProxyType(settings)\n', '        view = MappingProxyType(settings)\n        return view\n')])
TT("twin-settings-tuple-temp", [(F, '        self.settings_tuple = tuple(iter_settings(config_block))\n', '        parsed = iter_settings(config_block)\n        self.settings_tuple = tuple(parsed)\n')])
TT("twin-view-cache-helper-kwargs", _cache_edits())
TT("twin-view-early-return", [(F, V_SET, '        if self._settings is not None:\n            return self._settings\n'
                                         '        self._settings = self.settings_map(index_type="name", pretty=True)\n        return self._settings\n')])
TT("twin-view-local-result", [(F, V_RAWI, '        cached = self._raw_settings_by_index\n        if cached is None:\n'
                                          '            cached = self.settings_map("const")\n            self._raw_settings_by_index = cached\n        return cached\n')])
TT("twin-view-positional-args", [(F, V_SETI, _view("_settings_by_index", '"const", True'))])

# ================================================================================================ mutants
# ---- R2 (value / key per scenario)
MM("from-bytes-little", "C02.R2", [(F, '                    val = u16be(val)\n', '                    val = int.from_bytes(val[:2], "little")\n')])
MM("from-bytes-signed", "C02.R2", [(F, '                    val = u32be(val)\n', '                    val = int.from_bytes(val[:4], "big", signed=True)\n')])
MM("from-bytes-wrong-width", "C02.R2", [(F, SMAP, SMAP_FROMBYTES), (F, 'value = int.from_bytes(value[:2], byteorder="big", signed=False)', 'value = int.from_bytes(value[:4], byteorder="big", signed=False)')])
MM("from-bytes-whole-value", "C02.R2", [(F, SMAP, SMAP_FROMBYTES), (F, 'value = int.from_bytes(value[:4], byteorder="big", signed=False)', 'value = int.from_bytes(value, byteorder="big", signed=False)')])
MM("helper-int-little-endian", "C02.R2", [(F, CLASS, SMAP_HELPERS.replace("return u32be(val)", "return u32(val)") + CLASS), (F, SMAP, SMAP_CALLS)])
MM("helper-ptr-stripped", "C02.R2", [(F, CLASS, SMAP_HELPERS.replace("        return u32be(val)\n    return val\n", "        return u32be(val)\n    return val.rstrip(b\"\\x00\")\n") + CLASS), (F, SMAP, SMAP_CALLS)])
MM("helper-keys-swapped", "C02.R2", [(F, CLASS, SMAP_HELPERS.replace('index_type == "const"', 'index_type == "value"') + CLASS), (F, SMAP, SMAP_CALLS)])
MM("convert-only-when-parse", "C02.R2", [(F, '            if parse or pretty:\n', '            if parse:\n')])
MM("convert-skips-zero", "C02.R2", [(F, '                    val = u16be(val)\n', '                    val = u16be(val) if any(val) else val\n')])
MM("pretty-func-in-raw-views", "C02.R2", [(F, '            if pretty:\n                pretty_func', '            if pretty or parse:\n                pretty_func')])
MM("pretty-func-of-type", "C02.R2", [(F, 'pretty_func = SETTING_TO_PRETTYFUNC.get(setting.index)', 'pretty_func = SETTING_TO_PRETTYFUNC.get(setting.type)')])
MM("keys-name-const-swapped", "C02.R2", [(F, KEYSEL, KEYSEL.replace('index_type == "name"', 'index_type == "@"').replace('index_type == "const"', 'index_type == "name"').replace('index_type == "@"', 'index_type == "const"'))])
MM("name-key-no-fallback", "C02.R2", [(F, '                key = setting.index.name or str(setting.index).replace(".", "_")\n', '                key = setting.index.name\n')])
MM("enum-key-is-value", "C02.R2", [(F, '            else:\n                key = setting.index\n', '            else:\n                key = setting.index.value\n')])
# ---- R3 (cached views)
MM("cache-helper-wrong-kwargs", "C02.R3", _cache_edits(settings_args='index_type="name"'))
MM("cache-helper-inverted-test", "C02.R3", _cache_edits(helper=CACHE_HELPER.replace("if cached is not None:", "if cached is None:")))
MM("cache-helper-never-stores", "C02.R3", _cache_edits(helper=CACHE_HELPER.replace("        setattr(self, cache_attr, cached)\n", "")))
MM("view-parse-off", "C02.R3", [(F, V_RAW, _view("_raw_settings", 'index_type="name", parse=False'))])
MM("view-inverted-guard", "C02.R3", [(F, V_SET, V_SET.replace("is None", "is not None"))])
MM("view-early-return-other-slot", "C02.R3", [(F, V_SET, '        if self._settings is not None:\n            return self._raw_settings\n'
                                                        '        self._settings = self.settings_map(index_type="name", pretty=True)\n        return self._settings\n')])
MM("view-slot-preset", "C02.R3", [(F, '        self._raw_settings: Optional[Mapping[str, Any]] = None\n', '        self._raw_settings: Optional[Mapping[str, Any]] = {}\n')])
# ---- R4 (order / one insertion per setting / exit)
MM("skip-empty-values", "C02.R4", [(F, '            val = setting.value\n            if index_type == "name":', '            val = setting.value\n            if not val:\n                continue\n            if index_type == "name":')])
MM("stop-at-unknown", "C02.R4", [(F, '            val = setting.value\n            if index_type == "name":', '            val = setting.value\n            if setting.index.name is None:\n                break\n            if index_type == "name":')])
MM("reversed-loop", "C02.R4", [(F, '        for setting in self.settings_tuple:\n            val = setting.value\n', '        for setting in reversed(self.settings_tuple):\n            val = setting.value\n')])
MM("move-to-front", "C02.R4", [(F, '            settings[key] = val\n', '            settings[key] = val\n            settings.move_to_end(key, last=False)\n')])
MM("settings-tuple-sorted", "C02.R4", [(F, '        self.settings_tuple = tuple(iter_settings(config_block))\n', '        self.settings_tuple = tuple(sorted(iter_settings(config_block), key=lambda s: s.index.value))\n')])
MM("helper-shape-returns-dict", "C02.R4", [(F, CLASS, SMAP_HELPERS + CLASS), (F, SMAP, SMAP_CALLS.replace("return MappingProxyType(settings)", "return settings"))])
# ---- R5 (iteration, terminator, give-back)
MM("cond-while-inverted", "C02.R5", [(F, PEEK, PEEK_COND.replace("!=", "=="))])
MM("cond-while-no-seek-back", "C02.R5", [(F, PEEK, PEEK_COND), (F, '            fobj.seek(-2, io.SEEK_CUR)\n', '')])
MM("seek-back-one", "C02.R5", [(F, '            fobj.seek(-2, io.SEEK_CUR)\n', '            fobj.seek(-1, io.SEEK_CUR)\n')])
MM("tell-after-peek", "C02.R5", [
    (F, '        peek = fobj.read(2)[:2]\n', '        peek = fobj.read(2)[:2]\n        start = fobj.tell()\n'),
    (F, '            fobj.seek(-2, io.SEEK_CUR)\n', '            fobj.seek(start)\n'),
])
MM("eof-continues", "C02.R5", [(F, '        except EOFError:\n            break\n', '        except EOFError:\n            continue\n')])
MM("yield-only-known", "C02.R5", [(F, '\n        yield setting\n', '\n        if setting.index.name:\n            yield setting\n')])
MM("parse-copy-of-stream", "C02.R5", [(F, '            setting = Setting(fobj)\n', '            setting = Setting(io.BytesIO(fobj.read()))\n')])
# ---- R6 (index 36, over-long User-Agent)
MM("merged-ua-length-ge", "C02.R6", [(F, UA + WM, UA_MERGED.replace("and setting.length == 0x80", "and setting.length >= 0x80") + WM_MERGED)])
MM("merged-rename-not-ptr", "C02.R6", [(F, UA + WM, UA_MERGED + WM_MERGED.replace("setting.type == SettingsType.TYPE_SHORT", "setting.type != SettingsType.TYPE_PTR"))])
MM("merged-rename-any-index", "C02.R6", [(F, UA + WM, UA_MERGED + WM_MERGED.replace("setting.index == BeaconSetting.SETTING_WATERMARKHASH and ", ""))])
MM("ua-helper-length-check-dropped", "C02.R6", [(F, ITER_DEF, UA_HELPER.replace('    if setting.length != 0x80:\n        return\n', '') + ITER_DEF), (F, UA, UA_CALL)])
MM("ua-helper-any-index", "C02.R6", [(F, ITER_DEF, UA_HELPER + ITER_DEF), (F, UA, UA_CALL.replace("if setting.index == BeaconSetting.SETTING_USERAGENT:", "if setting.type == SettingsType.TYPE_PTR:"))])
MM("rename-removed", "C02.R6", [(F, WM, '')])
MM("ua-continuation-removed", "C02.R6", [(F, UA + WM, '        if setting.index == BeaconSetting.SETTING_WATERMARKHASH:\n' + WM.split("\n", 1)[1])])

# ---- second batch: try around the whole loop, assignment expression in a view, wrong exception class
LOOP = PEEK + PARSE + UA + WM + '\n        yield setting\n'


def _ind(text):
    return "".join("    " + l if l.strip() else l for l in text.splitlines(True))


LOOP_IN_TRY = (
    '    try:\n'
    + _ind(PEEK + '        fobj.seek(-2, io.SEEK_CUR)\n        setting = Setting(fobj)\n' + UA + WM + '\n        yield setting\n')
    + '    except EOFError:\n        return\n'
)
TT("twin-try-around-loop", [(F, LOOP, LOOP_IN_TRY)])
TT("twin-view-walrus", [(F, V_SET, '        if (cached := self._settings) is None:\n'
                                   '            cached = self._settings = self.settings_map(index_type="name", pretty=True)\n        return cached\n')])
MM("eof-not-caught", "C02.R5", [(F, '        except EOFError:\n            break\n', '        except ValueError:\n            break\n')])
MM("try-around-loop-wrong-class", "C02.R5", [(F, LOOP, LOOP_IN_TRY.replace("except EOFError:", "except OSError:"))])
MM("view-walrus-other-slot", "C02.R3", [(F, V_SET, '        if (cached := self._raw_settings) is None:\n'
                                                  '            cached = self._settings = self.settings_map(index_type="name", pretty=True)\n        return cached\n')])
MM("terminator-test-removed", "C02.R5", [(F, PEEK, '    while True:\n'), (F, '            fobj.seek(-2, io.SEEK_CUR)\n', '')])

# ---- third batch: positional pairing in a cached view (R3, cardinality classes), bounded User-Agent continuation (R6, length domain)
UA_LOOP = (
    '                    while True:\n'
    '                        x = fobj.read(1)\n'
    '                        if not x:\n'
    '                            # end of data before the NUL terminator\n'
    '                            break\n'
    '                        if x == b"\\x00":\n'
    '                            fobj.seek(-1, io.SEEK_CUR)\n'
    '                            break\n'
    '                        setting.value += x\n'
)
UA_CHUNKED = (
    '                    while True:\n'
    '                        chunk = fobj.read(64)\n'
    '                        if not chunk:\n'
    '                            break\n'
    '                        nul = chunk.find(b"\\x00")\n'
    '                        if nul >= 0:\n'
    '                            setting.value += chunk[:nul]\n'
    '                            fobj.seek(nul - len(chunk), io.SEEK_CUR)\n'
    '                            break\n'
    '                        setting.value += chunk\n'
)
UA_READ_ALL = (
    '                    rest = fobj.read()\n'
    '                    extra = rest.split(b"\\x00", 1)[0]\n'
    '                    setting.value += extra\n'
    '                    fobj.seek(len(extra) - len(rest), io.SEEK_CUR)\n'
)
UA_ACCUMULATOR = (
    '                    extra = b""\n'
    '                    while True:\n'
    '                        x = fobj.read(1)\n'
    '                        if not x:\n'
    '                            break\n'
    '                        if x == b"\\x00":\n'
    '                            fobj.seek(-1, io.SEEK_CUR)\n'
    '                            break\n'
    '                        extra += x\n'
    '                    if extra:\n'
    '                        setting.value += extra\n'
)
# a constant view assembled by pairing two per-record sequences (same values as settings_map("const"))
V_RAWI_ZIP_RECORDS = (
    '        if self._raw_settings_by_index is None:\n'
    '            values = (\n'
    '                u16be(s.value) if s.type == SettingsType.TYPE_SHORT else u32be(s.value) if s.type == SettingsType.TYPE_INT else s.value\n'
    '                for s in self.settings_tuple\n'
    '            )\n'
    '            self._raw_settings_by_index = MappingProxyType(OrderedDict(zip(self.setting_enums, values)))\n'
    '        return self._raw_settings_by_index\n'
)
TT("twin-ua-chunked-loop", [(F, UA_LOOP, UA_CHUNKED)])
TT("twin-ua-read-rest-of-stream", [(F, UA_LOOP, UA_READ_ALL)])
TT("twin-ua-accumulator-local", [(F, UA_LOOP, UA_ACCUMULATOR)])
TT("twin-view-zip-per-record-sequences", [(F, V_RAWI, V_RAWI_ZIP_RECORDS)])
MM("ua-bounded-for-loop", "C02.R6", [(F, UA_LOOP, UA_LOOP.replace("while True:", "for _ in range(0x400):"))])
MM("ua-single-chunk-split", "C02.R6", [(F, UA_LOOP, UA_READ_ALL.replace("fobj.read()", "fobj.read(512)"))])
MM("ua-helper-bounded-for-loop", "C02.R6", [(F, ITER_DEF, UA_HELPER.replace("    while True:\n", "    for _ in range(1024):\n") + ITER_DEF), (F, UA, UA_CALL)])
MM("ua-accumulator-bounded", "C02.R6", [(F, UA_LOOP, UA_ACCUMULATOR.replace("while True:", "for _ in range(256):"))])
MM("view-map-records-with-name-view", "C02.R3", [(F, V_SETI, (
    '        if self._settings_by_index is None:\n'
    '            pairs = map(lambda s, value: (s.index.value, value), self.settings_tuple, self.settings.values())\n'
    '            self._settings_by_index = MappingProxyType(OrderedDict(pairs))\n'
    '        return self._settings_by_index\n'))])
MM("view-zip-name-keys-with-record-values", "C02.R3", [(F, V_RAW, (
    '        if self._raw_settings is None:\n'
    '            names = list(self.settings)\n'
    '            self._raw_settings = MappingProxyType(dict(zip(names, [s.value for s in self.settings_tuple])))\n'
    '        return self._raw_settings\n'))])

# ---- fourth batch: the end-of-settings test (R5 "a zero index alone ends the settings": scenario walk of one iteration of the
# parse loop under "the record at the cursor has index 0"); parse-first shapes, wider look-aheads, entangled / membership tests
PARSE_FIRST = (
    '    while True:\n'
    '        try:\n'
    '            setting = Setting(fobj)\n'
    '        except EOFError:\n'
    '            break\n'
)


def _parse_first(test):
    return [(F, PEEK + PARSE, PARSE_FIRST + f'        if {test}:\n            # end of beacon config\n            break\n')]


PEEK4 = (
    '    while True:\n'
    '        peek = fobj.read(4)[:4]\n'
    '        if peek == b"\\x00\\x00\\x00\\x00":\n'
    '            # end of beacon config\n'
    '            break\n'
)
TT("twin-parse-first-index-test", _parse_first("setting.index == 0"))
TT("twin-parse-first-falsy-index", _parse_first("not setting.index"))
TT("twin-parse-first-index-value-local", [(F, PEEK + PARSE, PARSE_FIRST + '        number = setting.index.value\n        if number < 1:\n            break\n')])
TT("twin-parse-first-index-membership", _parse_first("setting.index in (0,)"))
TT("twin-peek-short-or-terminator", [(F, '        if peek == b"\\x00\\x00":\n', '        if len(peek) < 2 or peek == b"\\x00\\x00":\n')])
TT("twin-peek-membership", [(F, '        if peek == b"\\x00\\x00":\n', '        if peek in (b"\\x00\\x00",):\n')])
TT("twin-peek-eof-test-first", [(F, '        if peek == b"\\x00\\x00":\n', '        if not peek:\n            break\n        if peek == b"\\x00\\x00":\n')])
TT("twin-peek4-index-bytes-only", [(F, PEEK, PEEK4.replace('peek == b"\\x00\\x00\\x00\\x00"', 'peek[:2] == b"\\x00\\x00"')),
                                   (F, '            fobj.seek(-2, io.SEEK_CUR)\n', '            fobj.seek(-4, io.SEEK_CUR)\n')])
MM("parse-first-zero-index-and-length", "C02.R5", _parse_first("setting.index == 0 and setting.length == 0"))
MM("parse-first-index-or-type-falsy", "C02.R5", _parse_first("not (setting.index or setting.type)"))
MM("parse-first-zero-index-empty-value", "C02.R5", _parse_first("setting.index == 0 and not setting.value"))
MM("parse-first-struct-truth-value", "C02.R5", _parse_first("not bool(setting)"))
MM("peek-index-and-type-bytes", "C02.R5", [(F, PEEK, PEEK4), (F, '            fobj.seek(-2, io.SEEK_CUR)\n', '            fobj.seek(-4, io.SEEK_CUR)\n')])
MM("cond-while-peek-index-and-type-bytes", "C02.R5", [(F, PEEK, '    while fobj.read(4)[:4] != b"\\x00\\x00\\x00\\x00":\n'), (F, '            fobj.seek(-2, io.SEEK_CUR)\n', '            fobj.seek(-4, io.SEEK_CUR)\n')])
MM("terminator-is-index-one", "C02.R5", _parse_first("setting.index == 1"))
# the index read as an integer before the parse; a flag-controlled loop whose test is evaluated again after the terminator
INDEX_INT = '    while True:\n        number = u16be(fobj.read(2))\n        if number == 0:\n            # end of beacon config\n            break\n'
FLAG_LOOP = (
    '    done = False\n'
    '    while not done:\n'
    '        peek = fobj.read(2)[:2]\n'
    '        if peek == b"\\x00\\x00":\n'
    '            # end of beacon config\n'
    '            done = True\n'
    '            continue\n'
)
TT("twin-index-read-as-integer", [(F, PEEK, INDEX_INT)])
TT("twin-index-from-bytes", [(F, '        if peek == b"\\x00\\x00":\n', '        if int.from_bytes(peek, "big") == 0 and len(peek) == 2:\n')])
TT("twin-flag-controlled-loop", [(F, PEEK, FLAG_LOOP)])
MM("flag-controlled-loop-flag-not-set", "C02.R5", [(F, PEEK, FLAG_LOOP.replace("done = True", "done = False"))])
MM("index-and-type-as-one-integer", "C02.R5", [(F, PEEK, '    while True:\n        head = fobj.read(4)\n        if u32be(head) == 0:\n            break\n'),
                                                (F, '            fobj.seek(-2, io.SEEK_CUR)\n', '            fobj.seek(-4, io.SEEK_CUR)\n')])
MM("index-integer-and-nothing-left", "C02.R5", [
    (F, PEEK, INDEX_INT.replace("        number = ", "        start = fobj.tell()\n        number = ").replace("if number == 0:", "if number == 0 and not fobj.read(1):")),
    (F, '            fobj.seek(-2, io.SEEK_CUR)\n', '            fobj.seek(start)\n'),
])

# ---- fifth batch: enum members / magic values hoisted to module-level constants (single-definition aliases, also chained and
# through cs_struct), the two mutually exclusive fix-up branches swapped, `break` of the outermost loop written as `return`
XOR_KEYS = 'DEFAULT_XOR_KEYS: List[bytes] = [b"\\x69", b"\\x2e", b"\\x00"]\n'
ALIASES = (
    '_CONFIG_TERMINATOR = b"\\x00\\x00"\n'
    '_USERAGENT_FIELD_SIZE = 0x80\n'
    '_SETTING_USERAGENT = BeaconSetting.SETTING_USERAGENT\n'
    '_SETTING_WATERMARKHASH = BeaconSetting.SETTING_WATERMARKHASH\n'
    '_INJECT_OPTIONS = DeprecatedBeaconSetting.SETTING_INJECT_OPTIONS\n'
    '_TYPE_SHORT = SettingsType.TYPE_SHORT\n'
    '_TYPE_INT = SettingsType.TYPE_INT\n'
)
UA_BODY = UA.split("\n", 1)[1]
WM_BODY = WM.split("\n", 1)[1]
UA_ALIAS = (
    '        if setting.index == _SETTING_USERAGENT:\n'
    + UA_BODY.replace("setting.length == 0x80", "setting.length == _USERAGENT_FIELD_SIZE").replace(">= 0x80", ">= _USERAGENT_FIELD_SIZE")
)
WM_ALIAS = (
    '        elif setting.index == _SETTING_WATERMARKHASH:\n'
    + WM_BODY.replace("SettingsType.TYPE_SHORT", "_TYPE_SHORT").replace("DeprecatedBeaconSetting.SETTING_INJECT_OPTIONS", "_INJECT_OPTIONS")
)
# watermark branch first, User-Agent branch as the elif
SWAPPED = WM_ALIAS.replace("        elif ", "        if ", 1) + UA_ALIAS.replace("        if ", "        elif ", 1)
CONV_ALIAS = CONV.replace("SettingsType.TYPE_SHORT", "_TYPE_SHORT").replace("SettingsType.TYPE_INT", "_TYPE_INT")


def _aliased(aliases=ALIASES, ua=UA_ALIAS, wm=WM_ALIAS, extra=()):
    return [(F, XOR_KEYS, XOR_KEYS + "\n" + aliases), (F, UA + WM, ua + wm)] + list(extra)


RETURNS = [(F, '            # end of beacon config\n            break\n', '            # end of beacon config\n            return\n'),
           (F, '        except EOFError:\n            break\n', '        except EOFError:\n            return\n')]
TT("twin-enum-members-hoisted", _aliased())
TT("twin-enum-members-hoisted-branches-swapped-return", [(F, XOR_KEYS, XOR_KEYS + "\n" + ALIASES), (F, UA + WM, SWAPPED),
                                                          (F, 'peek == b"\\x00\\x00"', 'peek == _CONFIG_TERMINATOR')] + RETURNS)
TT("twin-branches-swapped", [(F, UA + WM, WM.replace("        elif ", "        if ", 1) + UA.replace("        if ", "        elif ", 1))])
TT("twin-outer-break-as-return", RETURNS)
TT("twin-enum-alias-chain", _aliased(ALIASES + '_UA_INDEX = _SETTING_USERAGENT\n', UA_ALIAS.replace("== _SETTING_USERAGENT", "== _UA_INDEX")))
TT("twin-enum-alias-through-cs-struct", _aliased(ALIASES.replace("= BeaconSetting.", "= cs_struct.BeaconSetting.")
                                                 .replace("= DeprecatedBeaconSetting.", "= cs_struct.DeprecatedBeaconSetting.")))
TT("twin-record-type-members-hoisted-in-settings-map", _aliased(extra=[(F, CONV, CONV_ALIAS)]))
TT("twin-enum-alias-mirrored-comparison", _aliased(ua=UA_ALIAS.replace("setting.index == _SETTING_USERAGENT", "_SETTING_USERAGENT == setting.index")))
MM("hoisted-watermark-alias-wrong-member", "C02.R6", _aliased(ALIASES.replace("BeaconSetting.SETTING_WATERMARKHASH", "BeaconSetting.SETTING_WATERMARK")))
MM("hoisted-aliases-used-crosswise", "C02.R6", [(F, XOR_KEYS, XOR_KEYS + "\n" + ALIASES),
                                                 (F, UA + WM, SWAPPED.replace("_SETTING_WATERMARKHASH", "_TMP").replace("_SETTING_USERAGENT", "_SETTING_WATERMARKHASH")
                                                  .replace("_TMP", "_SETTING_USERAGENT"))])
MM("hoisted-rename-target-wrong-member", "C02.R6", _aliased(ALIASES.replace("DeprecatedBeaconSetting.SETTING_INJECT_OPTIONS", "DeprecatedBeaconSetting.SETTING_KILLDATE_YEAR")))
MM("hoisted-short-alias-is-int", "C02.R6", _aliased(ALIASES.replace("_TYPE_SHORT = SettingsType.TYPE_SHORT", "_TYPE_SHORT = SettingsType.TYPE_PTR")))
MM("hoisted-useragent-alias-chain-wrong-member", "C02.R6", _aliased(ALIASES + '_UA_INDEX = _SETTING_WATERMARKHASH\n', UA_ALIAS.replace("== _SETTING_USERAGENT", "== _UA_INDEX")))
MM("hoisted-record-type-aliases-swapped-in-settings-map", "C02.R2", _aliased(
    ALIASES.replace("_TYPE_SHORT = SettingsType.TYPE_SHORT", "_TYPE_SHORT = SettingsType.TYPE_INT").replace("_TYPE_INT = SettingsType.TYPE_INT", "_TYPE_INT = SettingsType.TYPE_SHORT"),
    wm=WM_ALIAS.replace("_TYPE_SHORT", "SettingsType.TYPE_SHORT"), extra=[(F, CONV, CONV_ALIAS)]))
MM("swapped-branches-length-test-dropped", "C02.R6", [(F, UA + WM, (WM.replace("        elif ", "        if ", 1) + UA.replace("        if ", "        elif ", 1))
                                                       .replace("            if setting.length == 0x80:\n", "            if True:\n"))])
# a member named through a class attribute is not a module-level single-definition constant (L6 does not apply): the guard
# compares the index with a term that is not a constant of the code -> undecided, never a violation
TT("twin-enum-member-through-class-attribute", [(F, XOR_KEYS, XOR_KEYS + '\n\nclass _Index:\n    USERAGENT = BeaconSetting.SETTING_USERAGENT\n\n'),
                                                (F, "setting.index == BeaconSetting.SETTING_USERAGENT", "setting.index == _Index.USERAGENT")])

# ---- sixth batch (round 5): (a) R2 - the value / key stored for a record is computed in the same iteration (a plainly assigned local of
# the per-setting loop that is read before its assignment carries what was computed for the previous record); (b) R5 - scenario
# "a complete record lies at the cursor": every exception-free path of the iteration reaches the yield (end-of-data detection by
# remaining-byte arithmetic must not cut off a record that is complete with the fixed fields alone)
SMAP_HEAD = '        settings = OrderedDict()\n        for setting in self.settings_tuple:\n            val = setting.value\n'
SMAP_HEAD_NOINIT = '        settings = OrderedDict()\n        for setting in self.settings_tuple:\n'
CONV_BLOCK = '            if parse or pretty:\n' + CONV


def _chain(last):
    return (
        '            if (parse or pretty) and setting.type == SettingsType.TYPE_SHORT:\n'
        '                val = u16be(setting.value)\n'
        '            elif (parse or pretty) and setting.type == SettingsType.TYPE_INT:\n'
        '                val = u32be(setting.value)\n' + last
    )


# explicit chain closed by an else / exhaustive over the members of SettingsType / pre-initialised before the loop
TT("twin-value-chain-closed-by-else", [(F, SMAP_HEAD, SMAP_HEAD_NOINIT), (F, CONV_BLOCK, _chain('            else:\n                val = setting.value\n'))])
TT("twin-value-chain-exhaustive-over-record-types", [(F, SMAP_HEAD, SMAP_HEAD_NOINIT), (F, CONV_BLOCK, _chain(
    '            elif not (parse or pretty) or setting.type in (SettingsType.TYPE_NONE, SettingsType.TYPE_PTR):\n                val = setting.value\n'))])
TT("twin-value-chain-short-int-exhausted-then-raw", [(F, SMAP_HEAD, SMAP_HEAD_NOINIT), (F, CONV_BLOCK, _chain(
    '            elif not (parse or pretty) or setting.type not in (SettingsType.TYPE_SHORT, SettingsType.TYPE_INT):\n                val = setting.value\n'))])
TT("twin-value-declared-before-loop", [(F, SMAP_HEAD, '        settings = OrderedDict()\n        val = None\n        for setting in self.settings_tuple:\n            val = setting.value\n')])
TT("twin-key-chain-else-raises", [(F, '            else:\n                key = setting.index\n',
                                   '            elif index_type == "enum":\n                key = setting.index\n            else:\n'
                                   '                raise ValueError(index_type)\n')])
# the raw value is only assigned while conversion is on: with parse=False, pretty=False every entry repeats a previous value
MM("value-unassigned-when-conversion-off", "C02.R2", [(F, SMAP_HEAD, SMAP_HEAD_NOINIT), (F, CONV_BLOCK, (
    '            if parse or pretty:\n'
    '                if setting.type == SettingsType.TYPE_SHORT:\n'
    '                    val = u16be(setting.value)\n'
    '                elif setting.type == SettingsType.TYPE_INT:\n'
    '                    val = u32be(setting.value)\n'
    '                else:\n'
    '                    val = setting.value\n'))])
# the initial value moved under a guard on the length: an empty record keeps the value of the record before it
MM("value-initialised-only-for-non-empty-records", "C02.R2", [(F, SMAP_HEAD, SMAP_HEAD_NOINIT + '            if setting.length:\n                val = setting.value\n')])
# pointer records handled in a branch of their own, TYPE_NONE forgotten, on top of the hoisted-aliases shape
MM("value-chain-misses-type-none-aliased", "C02.R2", _aliased(extra=[(F, SMAP_HEAD, SMAP_HEAD_NOINIT), (F, CONV_BLOCK, _chain(
    '            elif not (parse or pretty) or setting.type == SettingsType.TYPE_PTR:\n                val = setting.value\n')
    .replace("SettingsType.TYPE_SHORT", "_TYPE_SHORT").replace("SettingsType.TYPE_INT", "_TYPE_INT"))]))
# the key is only computed for records with a known index (else the previous key is reused and the entry overwritten)
MM("key-unassigned-for-unknown-index", "C02.R2", [(F, '            if index_type == "name":\n                key = setting.index.name or str(setting.index).replace(".", "_")\n',
                                                     '            if index_type == "name":\n                if setting.index.name:\n                    key = setting.index.name\n')])

END_PROLOGUE = (
    '    start = fobj.tell()\n'
    '    size = fobj.seek(0, io.SEEK_END)\n'
    '    fobj.seek(start)\n'
)
WHILE = '    while True:\n        peek = fobj.read(2)[:2]\n'
TERM = '        if peek == b"\\x00\\x00":\n            # end of beacon config\n            break\n'


def _eod(before_peek="", after_term="", prologue=END_PROLOGUE):
    return [(F, WHILE, prologue + '    while True:\n' + before_peek + '        peek = fobj.read(2)[:2]\n'), (F, TERM, TERM + after_term)]


# correct remaining-byte arithmetic in several spellings (a record is complete with its 6 fixed bytes)
TT("twin-eod-remaining-less-than-header", _eod(before_peek='        if size - fobj.tell() < 6:\n            break\n'))
TT("twin-eod-position-plus-header-beyond-end", _eod(before_peek='        if fobj.tell() + 6 > size:\n            break\n'))
TT("twin-eod-remaining-temp-after-peek", _eod(after_term='        remaining = size - fobj.tell()\n        if remaining < 4:\n            break\n'))
TT("twin-eod-position-local", _eod(before_peek='        pos = fobj.tell()\n        if size - pos <= 5:\n            break\n'))
TT("twin-eod-at-end", _eod(before_peek='        if fobj.tell() >= size:\n            break\n'))
TT("twin-eod-give-back-by-peek-length", [(F, '            fobj.seek(-2, io.SEEK_CUR)\n', '            fobj.seek(-len(peek), io.SEEK_CUR)\n')])
TT("twin-eod-short-peek-and-remaining", _eod(after_term='        if len(peek) < 2:\n            break\n        fobj.seek(-len(peek), io.SEEK_CUR)\n'
                                                        '        if size - fobj.tell() < 6:\n            break\n')
   + [(F, '            fobj.seek(-2, io.SEEK_CUR)\n            setting = Setting(fobj)\n', '            setting = Setting(fobj)\n')])
# wrong header size / test taken at another offset / a record type or an empty value treated as the end of the settings
MM("eod-header-size-counts-value-bytes", "C02.R5", _eod(before_peek='        if size - fobj.tell() < 8:\n            break\n'))
MM("eod-remaining-temp-after-peek-off-by-two", "C02.R5", _eod(after_term='        remaining = size - fobj.tell()\n        if remaining <= 4:\n            break\n'))
MM("eod-position-plus-header-reaches-end", "C02.R5", _eod(before_peek='        if fobj.tell() + 6 >= size:\n            break\n'))
MM("eod-cond-while-remaining-more-than-header", "C02.R5", [(F, PEEK, END_PROLOGUE + '    while size - fobj.tell() > 6 and fobj.read(2)[:2] != b"\\x00\\x00":\n')])
MM("empty-record-ends-the-settings", "C02.R5", [(F, UA, '        if setting.length == 0:\n            break\n' + UA)])
MM("type-none-record-ends-the-settings", "C02.R5", [(F, UA, '        if setting.type == SettingsType.TYPE_NONE:\n            # padding\n            break\n' + UA)])
MM("unknown-high-index-skipped", "C02.R5", [(F, UA, '        if setting.index > 0x7FFF:\n            continue\n' + UA)])

# ------------------------------------------------------------------------------------------------ wave 7
# R2 "no pretty function evaluated unless pretty is on": the raw / parsed views are total (any type, length, value bytes),
# the pretty functions are not - they may only be *evaluated* (not merely: stored) on paths on which `pretty` holds.
ITER_VALUES_LAZY = (
    '    def _iter_values(self, pretty=False):\n'
    '        for setting in self.settings_tuple:\n'
    '            value = parsed = setting.value\n'
    '            if setting.type == SettingsType.TYPE_SHORT:\n'
    '                parsed = u16be(value)\n'
    '            elif setting.type == SettingsType.TYPE_INT:\n'
    '                parsed = u32be(value)\n'
    '            pretty_func = SETTING_TO_PRETTYFUNC.get(setting.index) if pretty else None\n'
    '            yield setting, value, parsed, pretty_func(parsed) if pretty_func else parsed\n'
    '\n'
)
SMAP_DEF = '    def settings_map(self, index_type="enum", pretty=False, parse=True) -> MappingProxyType:\n'
SMAP_SELECT = (
    '        settings = OrderedDict()\n'
    '        for setting, value, parsed, pretty_value in self._iter_values(pretty):\n'
    + KEYSEL +
    '            if pretty:\n'
    '                settings[key] = pretty_value\n'
    '            elif parse:\n'
    '                settings[key] = parsed\n'
    '            else:\n'
    '                settings[key] = value\n'
    '        return MappingProxyType(settings)\n'
)
# twins: the table lookup may be eager, the application is lazy (conditional expression / generator helper told the flag)
TT("twin-pretty-lookup-eager-application-conditional", [(F, PRETTY, '            pretty_func = SETTING_TO_PRETTYFUNC.get(setting.index)\n'
                                                                     '            val = pretty_func(val) if pretty and pretty_func else val\n')])
TT("twin-pretty-short-circuit", [(F, PRETTY, '            pretty_func = pretty and SETTING_TO_PRETTYFUNC.get(setting.index)\n'
                                             '            if pretty_func:\n                val = pretty_func(val)\n')])
TT("twin-values-generator-told-the-flag", [(F, SMAP_DEF, ITER_VALUES_LAZY + SMAP_DEF), (F, SMAP, SMAP_SELECT)])
# mutants: the pretty value is computed for every view and only *selected* by the flag / logged / computed by the helper up front
MM("pretty-value-computed-before-the-flag-is-tested", "C02.R2", [(F, PRETTY, '            pretty_func = SETTING_TO_PRETTYFUNC.get(setting.index)\n'
                                                                            '            pretty_val = pretty_func(val) if pretty_func else val\n'
                                                                            '            if pretty:\n                val = pretty_val\n')])
MM("pretty-value-logged-for-every-view", "C02.R2", [(F, '            settings[key] = val\n        return MappingProxyType(settings)\n',
                                                     '            logger.debug("%s = %r", key, SETTING_TO_PRETTYFUNC.get(setting.index, repr)(val))\n'
                                                     '            settings[key] = val\n        return MappingProxyType(settings)\n')])
MM("helpers-prettify-called-up-front", "C02.R2", [(F, ITER_DEF, SMAP_HELPERS + ITER_DEF), (F, SMAP, SMAP_CALLS.replace(
    '            if pretty:\n                val = _prettify_value(setting, val)\n',
    '            pretty_val = _prettify_value(setting, val)\n            if pretty:\n                val = pretty_val\n'))])
MM("values-generator-eager-subscript", "C02.R2", [(F, SMAP_DEF, ITER_VALUES_LAZY.replace(
    '            pretty_func = SETTING_TO_PRETTYFUNC.get(setting.index) if pretty else None\n'
    '            yield setting, value, parsed, pretty_func(parsed) if pretty_func else parsed\n',
    '            known = setting.index in SETTING_TO_PRETTYFUNC\n'
    '            yield setting, value, parsed, SETTING_TO_PRETTYFUNC[setting.index](parsed) if known else parsed\n') + SMAP_DEF), (F, SMAP, SMAP_SELECT)])

# R6 "User-Agent continuation entered for every completely filled 128-byte field": whatever the other 127 bytes are, a field
# whose last byte is not NUL continues.  Twins: other spellings of "the last byte is not NUL"; mutants: tests that look at the
# bytes before the last one (a NUL anywhere / leading NULs) or that never hold.
FILL = 'len(setting.value.rstrip(b"\\x00")) >= 0x80'
TT("twin-ua-fill-last-byte-index", [(F, FILL, 'setting.value[-1] != 0')])
TT("twin-ua-fill-last-byte-slice", [(F, FILL, 'setting.value[-1:] != b"\\x00"')])
TT("twin-ua-fill-not-endswith-nul", [(F, FILL, 'not setting.value.endswith(b"\\x00")')])
TT("twin-ua-fill-rstrip-is-identity", [(F, FILL, 'setting.value.rstrip(b"\\x00") == setting.value')])
TT("twin-ua-fill-temporaries-merged", [(F, UA + WM, UA_MERGED.replace('            and ' + FILL + '\n', '            and filled\n').replace(
    '        if (\n', '        ua = setting.value\n        filled = len(ua.rstrip(b"\\x00")) == len(ua)\n        if (\n', 1) + WM_MERGED)])
MM("ua-fill-find-nul-anywhere", "C02.R6", [(F, UA + WM, UA_MERGED.replace(FILL, 'setting.value.find(b"\\x00") < 0') + WM_MERGED)])
MM("ua-fill-strip-both-ends", "C02.R6", [(F, FILL, 'len(setting.value.strip(b"\\x00")) >= 0x80')])
MM("ua-helper-returns-when-any-nul-counted", "C02.R6", [(F, ITER_DEF, UA_HELPER.replace(
    '    if len(setting.value.rstrip(b"\\x00")) < 0x80:\n', '    if setting.value.count(b"\\x00"):\n') + ITER_DEF), (F, UA, UA_CALL)])
MM("ua-fill-test-inverted", "C02.R6", [(F, FILL, 'len(setting.value.rstrip(b"\\x00")) < 0x80')])
MM("ua-fill-first-byte-tested", "C02.R6", [(F, FILL, 'setting.value[0] != 0')])

# R1 "record layout from the C definitions": the widths / signedness of the Setting header fields are resolved by type *name*
# (enum base types, scalar typedefs of the definition text, the built-in typedef names of dissect.cstruct) and the enum members
# by C numbering, so restyling the grammar (implicit consecutive enumerators, uint16_t / WORD / unsigned short, a local
# typedef) is invisible.  Mutants: another width or a signed read behind such an alias, implicit numbering that shifts values.
ST_ENUM = ('enum SettingsType: uint16 {\n    TYPE_NONE = 0,\n    TYPE_SHORT = 1,\n    TYPE_INT = 2,\n    TYPE_PTR = 3,\n};\n')
ST_STRUCT = ('struct Setting {\n    BeaconSetting index;    // uint16\n    SettingsType type;      // uint16\n'
             '    uint16 length;          // uint16\n    char value[length];\n};\n')
TT("twin-cdef-length-word", [(F, '    uint16 length;          // uint16\n', '    WORD length;\n')])
TT("twin-cdef-length-unsigned-short", [(F, '    uint16 length;          // uint16\n', '    unsigned  short length;  /* 16 bit */\n')])
TT("twin-cdef-length-user-typedef", [(F, ST_STRUCT, 'typedef uint16_t be16;\n\n' + ST_STRUCT.replace('    uint16 length; ', '    be16 length;   '))])
TT("twin-cdef-enum-implicit-tail-ushort", [(F, ST_ENUM, 'enum SettingsType: USHORT {\n    TYPE_NONE = 0,\n    TYPE_SHORT,\n    TYPE_INT,\n    TYPE_PTR\n};\n')])
TT("twin-cdef-index-enum-base-alias", [(F, 'enum BeaconSetting: uint16 {', 'enum BeaconSetting: uint16_t {')])
MM("cdef-length-uint32-alias", "C02.R1", [(F, '    uint16 length;          // uint16\n', '    uint32_t length;\n')])
MM("cdef-length-signed-alias", "C02.R1", [(F, '    uint16 length;          // uint16\n', '    int16_t length;\n')])
MM("cdef-length-typedef-narrow", "C02.R1", [(F, ST_STRUCT, 'typedef uint8 be16;\n\n' + ST_STRUCT.replace('    uint16 length; ', '    be16 length;   '))])
MM("cdef-index-enum-base-signed", "C02.R1", [(F, 'enum BeaconSetting: uint16 {', 'enum BeaconSetting: SHORT {')])
MM("cdef-type-enum-implicit-reordered", "C02.R1", [(F, ST_ENUM, 'enum SettingsType: uint16_t {\n    TYPE_NONE,\n    TYPE_INT,\n    TYPE_SHORT,\n    TYPE_PTR,\n};\n')])
MM("cdef-type-enum-implicit-from-one", "C02.R1", [(F, ST_ENUM, 'enum SettingsType: uint16 {\n    TYPE_NONE = 1,\n    TYPE_SHORT,\n    TYPE_INT,\n    TYPE_PTR,\n};\n')])
