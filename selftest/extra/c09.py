"""C09 - extra corpus: twins for the kinds of refactoring the rules are robust against (accumulator rewrites of read():
list + join, byte counter, bytearray, `x = x + ..`, early returns, walrus loop; header arithmetic behind a property / named
constants / locals; whence dispatch written the other way round; constructor reading the header in one go or through its
parameters; De Morgan / continue-style guards, flags, int.from_bytes for u32; candidate discovery with explicit loops,
temporaries, for-else) and mutants for every restructured rule, several of them applied on top of a refactored shape."""

from selftest.corpus import M, T

F = "xordecode.py"

READ = '''    def read(self, n=-1):
        data = b""
        if n == 0:
            return data
        nonce = self.read_nonce()
        while True:
            chunk = self.fh.read(4)
            if not chunk:
                break
            # log.debug(f"{chunk}, {nonce}")
            data += xor(chunk, nonce)
            nonce = chunk
            if n > 0 and len(data) >= n:
                break
        if n > 0 and len(data) > n:
            # data is decoded in 4-byte words, give back what was not asked for
            self.fh.seek(n - len(data), io.SEEK_CUR)
            data = data[:n]
        return data
'''

# list of words joined once + explicit byte counter + early returns
READ_LIST = '''    def read(self, n=-1):
        if n == 0:
            return b""
        key = self.read_nonce()
        parts = []
        total = 0
        while True:
            word = self.fh.read(4)
            if not word:
                break
            parts.append(xor(word, key))
            total += len(word)
            key = word
            if n > 0 and total >= n:
                break
        out = b"".join(parts)
        if n > 0 and total > n:
            self.fh.seek(n - total, io.SEEK_CUR)
            return out[:n]
        return out
'''

# bytearray buffer, `len(buf)` as the counter, surplus computed once, result converted on return
READ_BUF = '''    def read(self, n=-1):
        buf = bytearray()
        if n == 0:
            return bytes(buf)
        nonce = self.read_nonce()
        while True:
            chunk = self.fh.read(4)
            if len(chunk) == 0:
                break
            buf.extend(xor(chunk, nonce))
            nonce = chunk
            if n > 0 and len(buf) >= n:
                break
        if n > 0 and len(buf) > n:
            surplus = len(buf) - n
            self.fh.seek(-surplus, io.SEEK_CUR)
            return bytes(buf[:n])
        return bytes(buf)
'''

# `x = x + ..`, walrus loop, positional whence constant
READ_WALRUS = '''    def read(self, n=-1):
        data = b""
        if n == 0:
            return data
        nonce = self.read_nonce()
        while chunk := self.fh.read(4):
            data = data + xor(chunk, nonce)
            nonce = chunk
            if n > 0 and len(data) >= n:
                break
        if n > 0 and len(data) > n:
            self.fh.seek(n - len(data), 1)
            data = data[:n]
        return data
'''

T("C09", "twin-read-list-join-counter", F, READ, READ_LIST)
T("C09", "twin-read-bytearray", F, READ, READ_BUF)
T("C09", "twin-read-walrus-rebinding", F, READ, READ_WALRUS)
M("C09", "list-join-no-giveback", F, READ, READ_LIST.replace("            self.fh.seek(n - total, io.SEEK_CUR)\n", ""), "C09.R2")
M("C09", "list-join-counter-assumes-whole-words", F, READ, READ_LIST.replace("total += len(word)", "total += 4"), "C09.R2")
M("C09", "list-join-giveback-without-truncation", F, READ, READ_LIST.replace("            return out[:n]\n", ""), "C09.R2")
M("C09", "giveback-without-truncation", F, "            data = data[:n]\n", "", "C09.R2")
M("C09", "bytearray-giveback-off-by-one", F, READ, READ_BUF.replace("surplus = len(buf) - n", "surplus = len(buf) - n - 1"), "C09.R2")
M("C09", "truncate-to-n-minus-1", F, "            data = data[:n]\n", "            data = data[: n - 1]\n", "C09.R2")
M("C09", "last-word-dropped", F,
  "            data += xor(chunk, nonce)\n            nonce = chunk\n            if n > 0 and len(data) >= n:\n                break\n",
  "            if n > 0 and len(data) >= n:\n                break\n            data += xor(chunk, nonce)\n            nonce = chunk\n", "C09.R2")
M("C09", "list-join-read0-reads", F, READ, READ_LIST.replace('        if n == 0:\n            return b""\n', ""), "C09.R2")

# give-back written as an absolute seek (position remembered before reading / asked again afterwards)
READ_ABS = READ.replace("        nonce = self.read_nonce()\n", "        nonce = self.read_nonce()\n        start = self.fh.tell()\n").replace(
    "            self.fh.seek(n - len(data), io.SEEK_CUR)\n", "            self.fh.seek(start + n)\n")
READ_ABS2 = READ.replace("            self.fh.seek(n - len(data), io.SEEK_CUR)\n", "            self.fh.seek(self.fh.tell() - (len(data) - n), io.SEEK_SET)\n")
T("C09", "twin-giveback-absolute-from-start", F, READ, READ_ABS)
T("C09", "twin-giveback-absolute-from-now", F, READ, READ_ABS2)
M("C09", "absolute-giveback-off-by-one", F, READ, READ_ABS.replace("self.fh.seek(start + n)", "self.fh.seek(start + n - 1)"), "C09.R2")
M("C09", "absolute-giveback-from-stale-position", F, READ, READ_ABS2.replace("self.fh.tell() - (len(data) - n)", "self.fh.tell() + n"), "C09.R2")

# ------------------------------------------------------------------------------------------------ rolling key (R3)
T("C09", "twin-key-updated-last", F,
  "            nonce = chunk\n            if n > 0 and len(data) >= n:\n                break\n",
  "            if n > 0 and len(data) >= n:\n                break\n            nonce = chunk\n")
M("C09", "key-updated-before-use", F, "            data += xor(chunk, nonce)\n            nonce = chunk\n", "            nonce = chunk\n            data += xor(chunk, nonce)\n", "C09.R3")
M("C09", "key-never-updated", F, "            data += xor(chunk, nonce)\n            nonce = chunk\n", "            data += xor(chunk, nonce)\n", "C09.R3")
M("C09", "list-join-plaintext-chaining", F, READ, READ_LIST.replace("            key = word\n", "            key = parts[-1]\n"), "C09.R3")
M("C09", "eight-byte-words", F, "            chunk = self.fh.read(4)\n            if not chunk:", "            chunk = self.fh.read(8)\n            if not chunk:", "C09.R3")
M("C09", "first-key-is-initial-nonce", F, "        nonce = self.read_nonce()\n        while True:", "        nonce = self.initial_nonce\n        while True:", "C09.R3")
M("C09", "read-nonce-moves-cursor", F, "            self.fh.seek(-4, io.SEEK_CUR)\n            nonce = self.fh.read(4)", "            self.fh.seek(-8, io.SEEK_CUR)\n            nonce = self.fh.read(4)", "C09.R3")
T("C09", "twin-read-nonce-named-word-size", F, "            self.fh.seek(-4, io.SEEK_CUR)\n            nonce = self.fh.read(4)",
  "            word = 4\n            self.fh.seek(-word, io.SEEK_CUR)\n            nonce = self.fh.read(word)")

# ------------------------------------------------------------------------------------------------ header length (R1)
TELL = "    def tell(self):\n        return self.fh.tell() - (self.nonce_offset + 8)\n"
# seek() as it is in /repo since the repair F25 (it returns the position in the decoded data, as tell() reports it) ...
SEEK = ("    def seek(self, offset, whence=io.SEEK_SET):\n        if whence == io.SEEK_SET:\n            offset += self.nonce_offset + 8\n        self.fh.seek(offset, whence)\n"
        "        # report the position in the decoded data, not in the underlying file\n        return self.tell()\n")
# ... and the same written as two forwarding returns that translate the result of the underlying seek back (base shape of several entries)
BACK = " - (self.nonce_offset + 8)"
TAIL2 = "        return self.fh.seek(offset, whence)" + BACK + "\n"
SEEK2 = ("    def seek(self, offset, whence=io.SEEK_SET):\n        if whence == io.SEEK_SET:\n            return self.fh.seek(offset + self.nonce_offset + 8, whence)" + BACK + "\n" + TAIL2)
T("C09", "twin-seek-two-forwarding-returns-translated-back", F, SEEK, SEEK2)
PROP = ("    @property\n    def _data_start(self):\n        return self.nonce_offset + HDR_LEN\n\n")
TELL_P = PROP + "    def tell(self):\n        raw = self.fh.tell()\n        return raw - self._data_start\n"
SEEK_P = ("    def seek(self, offset, whence=io.SEEK_SET):\n        if whence != io.SEEK_SET:\n            return self.fh.seek(offset, whence) - self._data_start\n"
          "        target = self._data_start + offset\n        self.fh.seek(target)\n        return self.tell()\n")
HDR = ("logger = logging.getLogger(__name__)\n", "logger = logging.getLogger(__name__)\n\nWORD = 4\nHDR_LEN = 2 * WORD\n")

T("C09", "twin-header-property-and-reversed-dispatch", F, "", "", edits=[(F, HDR[0], HDR[1]), (F, TELL, TELL_P), (F, SEEK, SEEK_P)])
M("C09", "property-header-one-word", F, "", "", "C09.R1", edits=[(F, HDR[0], HDR[1].replace("2 * WORD", "WORD")), (F, TELL, TELL_P), (F, SEEK, SEEK_P)])
M("C09", "reversed-dispatch-forgets-header", F, "", "", "C09.R1",
  edits=[(F, HDR[0], HDR[1]), (F, TELL, TELL_P), (F, SEEK, SEEK_P.replace("target = self._data_start + offset", "target = self.nonce_offset + offset"))])
M("C09", "seek-forgets-header-2", F, "            offset += self.nonce_offset + 8\n        self.fh.seek(offset, whence)", "            offset += self.nonce_offset\n        self.fh.seek(offset, whence)", "C09.R1")
M("C09", "relative-seek-translated-too", F, SEEK, SEEK2.replace(TAIL2, "        return self.fh.seek(offset + self.nonce_offset + 8, whence)" + BACK + "\n"), "C09.R1")
M("C09", "relative-seeks-ignored", F, SEEK, SEEK2.replace(TAIL2, "        return self.tell()\n"), "C09.R1")
T("C09", "twin-seek-whence-literal", F, SEEK, SEEK2.replace("        if whence == io.SEEK_SET:\n            return self.fh.seek(offset + self.nonce_offset + 8, whence)" + BACK,
                                                           "        if 0 == whence:\n            return self.fh.seek(8 + self.nonce_offset + offset, io.SEEK_SET) - 8 - self.nonce_offset"))

SEEK_ADJ = ("    def seek(self, offset, whence=io.SEEK_SET):\n        if whence == io.SEEK_SET:\n            offset += self.nonce_offset + 8\n        pos = self.fh.seek(offset, whence)\n        return pos - self.nonce_offset - 8\n")
T("C09", "twin-seek-adjusts-offset-then-forwards", F, SEEK, SEEK_ADJ)
M("C09", "seek-adjusts-offset-by-one-word", F, SEEK, SEEK_ADJ.replace("self.nonce_offset + 8", "self.nonce_offset + 4"), "C09.R1")
M("C09", "seek-adjusts-offset-for-every-whence", F, SEEK, SEEK_ADJ.replace("        if whence == io.SEEK_SET:\n            offset +=", "        if True:\n            offset +="), "C09.R1")
SEEK_CHAIN = ("    def seek(self, offset, whence=io.SEEK_SET):\n        if whence == io.SEEK_CUR or whence == io.SEEK_END:\n            pos = self.fh.seek(offset, whence)\n"
              "        elif whence == io.SEEK_SET:\n            pos = self.fh.seek(self.nonce_offset + 8 + offset, io.SEEK_SET)\n        else:\n            pos = self.fh.seek(offset, whence)\n        return pos - (8 + self.nonce_offset)\n")
T("C09", "twin-seek-elif-chain", F, SEEK, SEEK_CHAIN)
M("C09", "seek-elif-chain-end-as-cur", F, SEEK, SEEK_CHAIN.replace("if whence == io.SEEK_CUR or whence == io.SEEK_END:\n            pos = self.fh.seek(offset, whence)", "if whence == io.SEEK_CUR or whence == io.SEEK_END:\n            pos = self.fh.seek(offset + 8, whence)"), "C09.R1")
T("C09", "twin-header-class-constant", F, "", "", edits=[(F, '    EOF_SHELLCODE_MARKER = b"\\xff\\xff\\xff"\n', '    EOF_SHELLCODE_MARKER = b"\\xff\\xff\\xff"\n    HEADER_SIZE = 8\n'),
                                                         (F, TELL, "    def tell(self):\n        return self.fh.tell() - self.nonce_offset - self.HEADER_SIZE\n")])
T("C09", "twin-first-word-via-own-tell", F, "        if pos < self.nonce_offset + 12:", "        if self.tell() < 4:")

INIT = "        self.fh.seek(self.nonce_offset)\n        self.initial_nonce = self.fh.read(4)\n        self.nonced_filesize = self.fh.read(4)\n"
INIT_HDR = "        fh.seek(nonce_offset)\n        header = fh.read(8)\n        self.initial_nonce = header[:4]\n        self.nonced_filesize = header[4:]\n"
T("C09", "twin-init-header-read-at-once", F, INIT, INIT_HDR)
M("C09", "init-header-words-swapped", F, INIT, INIT_HDR.replace("header[:4]", "header[4:8]").replace("header[4:]\n", "header[:4]\n"), "C09.R1")
M("C09", "init-cursor-left-in-header", F, INIT, "        self.fh.seek(self.nonce_offset)\n        self.initial_nonce = self.fh.read(4)\n        self.nonced_filesize = self.initial_nonce\n", "C09.R1")

LOOP = ("        if len(nonce) != 4 or len(size) != 4:\n            break\n        decoded_size = u32(xor(nonce, size))\n        if decoded_size + i + 8 == real_size:\n"
        "            logger.debug(\"FOUND real_size, iter_nonce_offsets -> %u\", i)\n            yield i\n")
LOOP_FLAG = ("        if not (len(nonce) == 4 and len(size) == 4):\n            break\n        plain = xor(nonce, size)\n        matches = real_size - 8 - i == int.from_bytes(plain, byteorder=\"little\")\n"
             "        if not matches:\n            continue\n        yield i\n")
T("C09", "twin-size-relation-flag-from-bytes", F, LOOP, LOOP_FLAG)
M("C09", "flag-size-relation-4", F, LOOP, LOOP_FLAG.replace("real_size - 8 - i", "real_size - 4 - i"), "C09.R1")
M("C09", "flag-size-big-endian", F, LOOP, LOOP_FLAG.replace('byteorder="little"', 'byteorder="big"'), "C09.R1")
M("C09", "size-not-unxored", F, "        decoded_size = u32(xor(nonce, size))\n", "        decoded_size = u32(size)\n", "C09.R1")
M("C09", "size-relation-dropped", F, "        if decoded_size + i + 8 == real_size:\n", "        if decoded_size:\n", "C09.R1")

WORDS = "        fh.seek(i)\n        nonce = fh.read(4)\n        size = fh.read(4)\n        if len(nonce) != 4 or len(size) != 4:\n            break\n"
WORDS_HDR = "        fh.seek(i)\n        header = fh.read(8)\n        if len(header) != 8:\n            break\n        nonce, size = header[:4], header[4:]\n"
T("C09", "twin-scan-reads-header-at-once", F, WORDS, WORDS_HDR)
M("C09", "scan-header-words-overlap", F, WORDS, WORDS_HDR.replace("header[:4], header[4:]", "header[:4], header[2:6]"), "C09.R1")
M("C09", "scan-reads-after-candidate", F, "        fh.seek(i)\n        nonce = fh.read(4)", "        fh.seek(i + 1)\n        nonce = fh.read(4)", "C09.R1")

RN = ("        if pos < self.nonce_offset + 12:\n            # Exclude \"encoded filesize\" as nonce:\n            # | nonce | encoded filesize | encoded MZ | encoded .. |\n"
      "            offset = pos - (self.nonce_offset + 8)\n            nonce = self.initial_nonce[offset:] + nonce[4 - offset :]\n        return nonce\n")
RN_EARLY = ("        start = self.nonce_offset + 8\n        if pos - start >= 4:\n            return nonce\n        skip = pos - start\n"
            "        return self.initial_nonce[skip:] + nonce[4 - skip :]\n")
T("C09", "twin-first-word-early-return", F, RN, RN_EARLY)
M("C09", "early-return-boundary-off-by-one", F, RN, RN_EARLY.replace("if pos - start >= 4:", "if pos - start > 4:"), "C09.R1")
M("C09", "early-return-offset-from-nonce", F, RN, RN_EARLY.replace("skip = pos - start", "skip = pos - self.nonce_offset"), "C09.R1")
M("C09", "first-word-boundary-inclusive", F, "        if pos < self.nonce_offset + 12:", "        if pos <= self.nonce_offset + 12:", "C09.R1")
M("C09", "first-word-unguarded", F, RN, "        offset = pos - (self.nonce_offset + 8)\n        nonce = self.initial_nonce[offset:] + nonce[4 - offset :]\n        return nonce\n", "C09.R1")

# ------------------------------------------------------------------------------------------------ detection (R4)
CAND = ('''        nonce_offsets = list(iter_nonce_offsets(fh, maxrange=maxrange))
        eof_shellcode_offsets = [
            offset + len(cls.EOF_SHELLCODE_MARKER)
            for offset in iter_find_needle(fh, cls.EOF_SHELLCODE_MARKER, start_offset=0, max_offset=maxrange)
        ]
''')
CAND_LOOPS = ('''        marker = cls.EOF_SHELLCODE_MARKER
        candidates = []
        for found in iter_nonce_offsets(fh, None, maxrange):
            candidates.append(found)
        for hit in iter_find_needle(fh, marker, 0, maxrange):
            candidates.append(hit + len(marker))
        nonce_offsets = candidates
        eof_shellcode_offsets = []
''')
TRY = ('''            if pe.find_mz_offset(cast(BinaryIO, xf)) is not None:
                xf.seek(0)
                return xf
        raise ValueError(f"MZ header not found for: {fh}")
''')
TRY_ELSE = ('''            mz = pe.find_mz_offset(cast(BinaryIO, xf))
            if mz is None:
                continue
            xf.seek(0, io.SEEK_SET)
            result = xf
            return result
        else:
            raise ValueError(f"MZ header not found for: {fh}")
''')
T("C09", "twin-candidates-explicit-loops", F, CAND, CAND_LOOPS)
T("C09", "twin-candidates-counter-update", F, "        for offset, count in collections.Counter(eof_shellcode_offsets + nonce_offsets).most_common():",
  "        votes = collections.Counter()\n        votes.update(eof_shellcode_offsets)\n        votes.update(nonce_offsets)\n        for offset, count in votes.most_common():")
M("C09", "counter-update-one-source", F, "        for offset, count in collections.Counter(eof_shellcode_offsets + nonce_offsets).most_common():",
  "        votes = collections.Counter()\n        votes.update(eof_shellcode_offsets)\n        for offset, count in votes.most_common():", "C09.R4")
T("C09", "twin-validate-temp-continue-for-else", F, TRY, TRY_ELSE)
M("C09", "loops-marker-offset-not-advanced", F, CAND, CAND_LOOPS.replace("candidates.append(hit + len(marker))", "candidates.append(hit)"), "C09.R4")
M("C09", "loops-size-candidates-dropped", F, CAND, CAND_LOOPS.replace("            candidates.append(found)\n", "            logger.debug(found)\n"), "C09.R4")
M("C09", "validate-by-truthiness", F, "            if pe.find_mz_offset(cast(BinaryIO, xf)) is not None:", "            if pe.find_mz_offset(cast(BinaryIO, xf)):", "C09.R4")
M("C09", "continue-style-inverted", F, TRY, TRY_ELSE.replace("if mz is None:", "if mz is not None:"), "C09.R4")
M("C09", "exhaustion-returns-none", F, '        raise ValueError(f"MZ header not found for: {fh}")\n', "        return None\n", "C09.R4")
M("C09", "marker-scan-starts-late", F, "start_offset=0, max_offset=maxrange", "start_offset=4, max_offset=maxrange", "C09.R4")
M("C09", "only-marker-candidates", F, "collections.Counter(eof_shellcode_offsets + nonce_offsets).most_common()", "collections.Counter(eof_shellcode_offsets).most_common()", "C09.R4")
M("C09", "candidates-unranked", F, "for offset, count in collections.Counter(eof_shellcode_offsets + nonce_offsets).most_common():",
  "for count, offset in enumerate(eof_shellcode_offsets + nonce_offsets):", "C09.R4")
M("C09", "size-candidates-half-range", F, "list(iter_nonce_offsets(fh, maxrange=maxrange))", "list(iter_nonce_offsets(fh, maxrange=maxrange // 2))", "C09.R4")
M("C09", "marker-two-bytes", F, 'EOF_SHELLCODE_MARKER = b"\\xff\\xff\\xff"', 'EOF_SHELLCODE_MARKER = b"\\xff\\xff"', "C09.R4")
M("C09", "returns-raw-file", F, "                xf.seek(0)\n                return xf\n", "                xf.seek(0)\n                xf = fh\n                return xf\n", "C09.R4")
# give-back and truncation under separate (equivalent) guards
READ_SPLIT = READ.replace("            data = data[:n]\n", "        if n > 0:\n            data = data[:n]\n")
T("C09", "twin-truncation-guarded-separately", F, READ, READ_SPLIT)
M("C09", "separate-guards-giveback-only-when-double-surplus", F, READ, READ_SPLIT.replace("if n > 0 and len(data) > n:", "if n > 0 and len(data) > n + 4:"), "C09.R2")
M("C09", "scan-skips-offset-zero", F, "    for i in range(maxrange):\n        fh.seek(i)", "    for i in range(1, maxrange):\n        fh.seek(i)", "C09.R4")
M("C09", "scan-every-other-offset", F, "    for i in range(maxrange):\n        fh.seek(i)", "    for i in range(0, maxrange, 2):\n        fh.seek(i)", "C09.R4")
T("C09", "twin-scan-explicit-range-start", F, "    for i in range(maxrange):\n        fh.seek(i)", "    for i in range(0, maxrange, 1):\n        fh.seek(i)")
M("C09", "rejected-candidate-ends-search", F, TRY, TRY_ELSE.replace("                continue\n", "                break\n").replace("        else:\n            raise ValueError", "        if True:\n            raise ValueError"), "C09.R4")
M("C09", "rejected-candidate-raises", F, "                xf.seek(0)\n                return xf\n", "                xf.seek(0)\n                return xf\n            raise ValueError(f\"no MZ header at {offset}\")\n", "C09.R4")

# ------------------------------------------------------------------------------------------------ round 2 (shapes found by independent refactorings)
SCAN = ("    for i in range(maxrange):\n        fh.seek(i)\n        nonce = fh.read(4)\n        size = fh.read(4)\n        if len(nonce) != 4 or len(size) != 4:\n            break\n"
        "        decoded_size = u32(xor(nonce, size))\n        if decoded_size + i + 8 == real_size:\n            logger.debug(\"FOUND real_size, iter_nonce_offsets -> %u\", i)\n            yield i\n")
SCAN_WHILE = ("    i = -1\n    while (i := i + 1) < maxrange:\n        fh.seek(i)\n        nonce = fh.read(4)\n        size = fh.read(4)\n        if not (len(nonce) == 4 and len(size) == 4):\n            return\n"
              "        (key,) = struct.unpack(\"<I\", nonce)\n        masked = int.from_bytes(size, \"little\")\n        if (key ^ masked) + i + 8 != real_size:\n            continue\n        yield i\n")
IMPORT_STRUCT = ("import logging\n", "import logging\nimport struct\n")
T("C09", "twin-scan-while-counter-xor-of-decodes", F, "", "", edits=[(F, IMPORT_STRUCT[0], IMPORT_STRUCT[1]), (F, SCAN, SCAN_WHILE)])
M("C09", "while-scan-skips-offset-zero", F, "", "", "C09.R4", edits=[(F, IMPORT_STRUCT[0], IMPORT_STRUCT[1]), (F, SCAN, SCAN_WHILE.replace("    i = -1\n", "    i = 0\n"))])
M("C09", "xor-of-decodes-big-endian", F, "", "", "C09.R1", edits=[(F, IMPORT_STRUCT[0], IMPORT_STRUCT[1]), (F, SCAN, SCAN_WHILE.replace('struct.unpack("<I", nonce)', 'struct.unpack(">I", nonce)'))])
SEEK_SHIFT = ("    def seek(self, offset, whence=io.SEEK_SET):\n        shift = self.nonce_offset + 8 if whence == io.SEEK_SET else 0\n        self.fh.seek(offset + shift, whence)\n        return self.tell()\n")
T("C09", "twin-seek-conditional-shift", F, SEEK, SEEK_SHIFT)
M("C09", "conditional-shift-also-for-end", F, SEEK, SEEK_SHIFT.replace("if whence == io.SEEK_SET else 0", "if whence != io.SEEK_CUR else 0"), "C09.R1")
T("C09", "twin-init-tuple-assignment", F, INIT, "        fh.seek(nonce_offset)\n        self.initial_nonce, self.nonced_filesize = fh.read(4), fh.read(4)\n")
M("C09", "init-tuple-assignment-swapped", F, INIT, "        fh.seek(nonce_offset)\n        self.nonced_filesize, self.initial_nonce = fh.read(4), fh.read(4)\n", "C09.R1")
PROBE = ("    @classmethod\n    def _probe(cls, fh, nonce_offset):\n        view = cls(fh, nonce_offset=nonce_offset)\n        if pe.find_mz_offset(cast(BinaryIO, view)) is None:\n            return None\n"
         "        view.seek(0)\n        return view\n\n    @classmethod\n    def from_path(")
LOOP_BODY = ("            found_nonce_offset = offset\n            xf = cls(fh, nonce_offset=found_nonce_offset)\n            if pe.find_mz_offset(cast(BinaryIO, xf)) is not None:\n"
             "                xf.seek(0)\n                return xf\n")
LOOP_PROBE = "            xf = cls._probe(fh, offset)\n            if xf is not None:\n                return xf\n"
T("C09", "twin-validation-in-probe-helper", F, "", "", edits=[(F, "    @classmethod\n    def from_path(", PROBE), (F, LOOP_BODY, LOOP_PROBE)])
M("C09", "probe-helper-no-rewind", F, "", "", "C09.R4", edits=[(F, "    @classmethod\n    def from_path(", PROBE.replace("        view.seek(0)\n", "")), (F, LOOP_BODY, LOOP_PROBE)])
M("C09", "probe-helper-result-untested", F, "", "", "C09.R4", edits=[(F, "    @classmethod\n    def from_path(", PROBE), (F, LOOP_BODY, "            xf = cls._probe(fh, offset)\n            return xf\n")])
M("C09", "probe-helper-failure-ends-search", F, "", "", "C09.R4",
  edits=[(F, "    @classmethod\n    def from_path(", PROBE), (F, LOOP_BODY, "            xf = cls._probe(fh, offset)\n            if xf is None:\n                break\n            return xf\n")])
RANKED = ("    @classmethod\n    def _ranked(cls, fh, maxrange):\n        marker = cls.EOF_SHELLCODE_MARKER\n        votes = collections.Counter()\n"
          "        votes.update(hit + len(marker) for hit in iter_find_needle(fh, marker, 0, maxrange))\n        votes.update(iter_nonce_offsets(fh, None, maxrange))\n        return votes\n\n"
          "    @classmethod\n    def from_path(")
T("C09", "twin-candidates-in-helper", F, "", "", edits=[(F, "    @classmethod\n    def from_path(", RANKED), (F, CAND, ""),
                                                          (F, "collections.Counter(eof_shellcode_offsets + nonce_offsets).most_common()", "cls._ranked(fh, maxrange).most_common()"),
                                                          (F, '        logger.debug(f"Found nonce offset candidates: {nonce_offsets}")\n        logger.debug(f"Found eof_shellcode offset candidates: {eof_shellcode_offsets}")\n', "")])
M("C09", "helper-candidates-marker-not-advanced", F, "", "", "C09.R4",
  edits=[(F, "    @classmethod\n    def from_path(", RANKED.replace("hit + len(marker) for hit", "hit for hit")), (F, CAND, ""),
         (F, "collections.Counter(eof_shellcode_offsets + nonce_offsets).most_common()", "cls._ranked(fh, maxrange).most_common()"),
         (F, '        logger.debug(f"Found nonce offset candidates: {nonce_offsets}")\n        logger.debug(f"Found eof_shellcode offset candidates: {eof_shellcode_offsets}")\n', "")])
# in-memory stream as the accumulator
READ_BIO = '''    def read(self, n=-1):
        if n == 0:
            return b""
        out = io.BytesIO()
        nonce = self.read_nonce()
        while True:
            chunk = self.fh.read(4)
            if not chunk:
                break
            out.write(xor(chunk, nonce))
            nonce = chunk
            if n > 0 and out.tell() >= n:
                break
        surplus = out.tell() - n
        if n > 0 and surplus > 0:
            self.fh.seek(-surplus, os.SEEK_CUR)
            return out.getvalue()[:n]
        return out.getvalue()
'''
T("C09", "twin-read-bytesio-stream", F, "", "", edits=[(F, "import logging\n", "import logging\nimport os\n"), (F, READ, READ_BIO)])
M("C09", "bytesio-giveback-one-short", F, "", "", "C09.R2", edits=[(F, "import logging\n", "import logging\nimport os\n"), (F, READ, READ_BIO.replace("self.fh.seek(-surplus, os.SEEK_CUR)", "self.fh.seek(1 - surplus, os.SEEK_CUR)"))])
SEEK_MATCH = ("    def seek(self, offset, whence=io.SEEK_SET):\n        match whence:\n            case io.SEEK_SET:\n                self.fh.seek(offset + self.nonce_offset + 8, whence)\n"
              "            case _:\n                self.fh.seek(offset, whence)\n        return self.fh.tell() - self.nonce_offset - 8\n")
T("C09", "twin-seek-match-statement", F, SEEK, SEEK_MATCH)
M("C09", "match-statement-cur-translated", F, SEEK, SEEK_MATCH.replace("case io.SEEK_SET:", "case io.SEEK_SET | io.SEEK_CUR:"), "C09.R1")

# ------------------------------------------------------------------------------------------------ round 3 (more independent shapes)
READ_SPLIT2 = '''    def read(self, n=-1):
        if n == 0:
            return b""
        if n < 0:
            return self._read_all()
        return self._read_upto(n)

    def _read_all(self):
        data = b""
        nonce = self.read_nonce()
        chunk = self.fh.read(4)
        while chunk:
            data += xor(chunk, nonce)
            nonce = chunk
            chunk = self.fh.read(4)
        return data

    def _read_upto(self, n):
        data = b""
        nonce = self.read_nonce()
        while len(data) < n:
            chunk = self.fh.read(4)
            if not chunk:
                return data
            data += xor(chunk, nonce)
            nonce = chunk
        if len(data) > n:
            self.fh.seek(n - len(data), io.SEEK_CUR)
        return data[:n]
'''
T("C09", "twin-read-split-methods-primed-loop", F, READ, READ_SPLIT2)
M("C09", "split-methods-upto-no-giveback", F, READ, READ_SPLIT2.replace("        if len(data) > n:\n            self.fh.seek(n - len(data), io.SEEK_CUR)\n", ""), "C09.R2")
M("C09", "primed-loop-key-from-next-word", F, READ, READ_SPLIT2.replace("            nonce = chunk\n            chunk = self.fh.read(4)\n", "            chunk = self.fh.read(4)\n            nonce = chunk\n"), "C09.R3")
M("C09", "primed-loop-word-dropped", F, READ, READ_SPLIT2.replace("        chunk = self.fh.read(4)\n        while chunk:", "        chunk = self.fh.read(4)\n        chunk = self.fh.read(4)\n        while chunk:"), "C09.R2")
READ_DOWN = '''    def read(self, n=-1):
        if n == 0:
            return b""
        data = b""
        remaining = n
        nonce = self.read_nonce()
        while True:
            chunk = self.fh.read(4)
            if not chunk:
                break
            data += xor(chunk, nonce)
            remaining -= len(chunk)
            nonce = chunk
            if n > 0 and remaining <= 0:
                break
        if n > 0 and remaining < 0:
            self.fh.seek(remaining, 1)
            data = data[:n]
        return data
'''
T("C09", "twin-read-countdown", F, READ, READ_DOWN)
M("C09", "countdown-assumes-whole-words", F, READ, READ_DOWN.replace("remaining -= len(chunk)", "remaining -= 4"), "C09.R2")
READ_WANT = '''    def read(self, n=-1):
        if n == 0:
            return b""
        want = n if n > 0 else None
        buf = bytearray()
        nonce = self.read_nonce()
        while want is None or len(buf) < want:
            chunk = self.fh.read(4)
            if not chunk:
                break
            buf += xor(chunk, nonce)
            nonce = chunk
        excess = len(buf) - want if want is not None else 0
        if excess > 0:
            self.fh.seek(-excess, io.SEEK_CUR)
            del buf[want:]
        return bytes(buf)
'''
T("C09", "twin-read-sentinel-del-truncation", F, READ, READ_WANT)
M("C09", "del-truncation-missing", F, READ, READ_WANT.replace("            del buf[want:]\n", ""), "C09.R2")
M("C09", "del-truncation-no-giveback", F, READ, READ_WANT.replace("            self.fh.seek(-excess, io.SEEK_CUR)\n", ""), "C09.R2")
HDR_STRUCT = ('    EOF_SHELLCODE_MARKER = b"\\xff\\xff\\xff"\n', '    EOF_SHELLCODE_MARKER = b"\\xff\\xff\\xff"\n    _HEADER = struct.Struct("<II")\n')
SEEK_TABLE = ("    def seek(self, offset, whence=io.SEEK_SET):\n        shift = {io.SEEK_SET: self.nonce_offset + self._HEADER.size}.get(whence, 0)\n        return self.fh.seek(offset + shift, whence) - (self.nonce_offset + self._HEADER.size)\n")
TELL_STRUCT = "    def tell(self):\n        return self.fh.tell() - (self.nonce_offset + self._HEADER.size)\n"
T("C09", "twin-header-struct-size-dispatch-table", F, "", "", edits=[(F, IMPORT_STRUCT[0], IMPORT_STRUCT[1]), (F, HDR_STRUCT[0], HDR_STRUCT[1]), (F, TELL, TELL_STRUCT), (F, SEEK, SEEK_TABLE)])
M("C09", "header-struct-one-word", F, "", "", "C09.R1", edits=[(F, IMPORT_STRUCT[0], IMPORT_STRUCT[1]), (F, HDR_STRUCT[0], HDR_STRUCT[1].replace("<II", "<I")), (F, TELL, TELL_STRUCT), (F, SEEK, SEEK_TABLE)])
M("C09", "dispatch-table-also-shifts-end", F, "", "", "C09.R1",
  edits=[(F, IMPORT_STRUCT[0], IMPORT_STRUCT[1]), (F, HDR_STRUCT[0], HDR_STRUCT[1]), (F, TELL, TELL_STRUCT),
         (F, SEEK, SEEK_TABLE.replace("{io.SEEK_SET: self.nonce_offset + self._HEADER.size}", "{io.SEEK_SET: self.nonce_offset + self._HEADER.size, io.SEEK_END: self._HEADER.size}"))])
FW_HELPER = ("    def _first_word_offset(self, pos):\n        start = self.nonce_offset + 8\n        if pos < start + 4:\n            return pos - start\n        return None\n\n    def tell(self):\n")
RN_OPT = ("        rel = self._first_word_offset(pos)\n        if rel is not None:\n            nonce = b\"\".join((self.initial_nonce[rel:], nonce[4 - rel :]))\n        return nonce\n")
T("C09", "twin-first-word-optional-helper", F, "", "", edits=[(F, "    def tell(self):\n", FW_HELPER), (F, RN, RN_OPT)])
M("C09", "optional-helper-boundary-off-by-one", F, "", "", "C09.R1", edits=[(F, "    def tell(self):\n", FW_HELPER.replace("pos < start + 4", "pos < start + 3")), (F, RN, RN_OPT)])
M("C09", "optional-helper-offset-from-nonce", F, "", "", "C09.R1", edits=[(F, "    def tell(self):\n", FW_HELPER.replace("return pos - start", "return pos - self.nonce_offset")), (F, RN, RN_OPT)])
FLAG = ('''        valid = False
        for offset, count in collections.Counter(eof_shellcode_offsets + nonce_offsets).most_common():
            xf = cls(fh, nonce_offset=offset)
            valid = pe.find_mz_offset(cast(BinaryIO, xf)) is not None
            if valid:
                break
        if not valid:
            raise ValueError(f"MZ header not found for: {fh}")
        xf.seek(0)
        return xf
''')
TRY_ALL = ('''        for offset, count in collections.Counter(eof_shellcode_offsets + nonce_offsets).most_common():
            logger.debug(f"Found common nonce offset: {offset} ({count})")
            found_nonce_offset = offset
            xf = cls(fh, nonce_offset=found_nonce_offset)
            if pe.find_mz_offset(cast(BinaryIO, xf)) is not None:
                xf.seek(0)
                return xf
        raise ValueError(f"MZ header not found for: {fh}")
''')
T("C09", "twin-found-flag-single-exit", F, TRY_ALL, FLAG)
M("C09", "found-flag-rewinds-raw-file", F, TRY_ALL, FLAG.replace("        xf.seek(0)\n", "        fh.seek(0)\n"), "C09.R4")
M("C09", "found-flag-inverted", F, TRY_ALL, FLAG.replace("is not None\n", "is None\n"), "C09.R4")
M("C09", "found-flag-stops-at-first", F, TRY_ALL, FLAG.replace("            if valid:\n                break\n", "            break\n"), "C09.R4")
CAND_EXT = ('''        candidates = []
        candidates.extend(offset + len(cls.EOF_SHELLCODE_MARKER) for offset in iter_find_needle(fh, cls.EOF_SHELLCODE_MARKER, start_offset=0, max_offset=maxrange))
        candidates += iter_nonce_offsets(fh, maxrange=maxrange)
        votes = collections.Counter()
        for candidate in candidates:
            votes[candidate] += 1
        nonce_offsets = []
        eof_shellcode_offsets = []
''')
COUNT_CALL = "collections.Counter(eof_shellcode_offsets + nonce_offsets).most_common()"
T("C09", "twin-candidates-extend-vote-loop", F, "", "", edits=[(F, CAND, CAND_EXT), (F, COUNT_CALL, "votes.most_common()")])
M("C09", "extend-marker-hits-unchanged", F, "", "", "C09.R4",
  edits=[(F, CAND, CAND_EXT.replace("candidates.extend(offset + len(cls.EOF_SHELLCODE_MARKER) for offset in iter_find_needle(fh, cls.EOF_SHELLCODE_MARKER, start_offset=0, max_offset=maxrange))",
                                    "candidates.extend(iter_find_needle(fh, cls.EOF_SHELLCODE_MARKER, start_offset=0, max_offset=maxrange))")), (F, COUNT_CALL, "votes.most_common()")])
M("C09", "votes-deduplicated-before-counting", F, "", "", "C09.R4",
  edits=[(F, CAND, CAND_EXT.replace("        votes = collections.Counter()\n", "        candidates = list(dict.fromkeys(candidates))\n        votes = collections.Counter()\n")), (F, COUNT_CALL, "votes.most_common()")])

# ------------------------------------------------------------------------------------------------ state carried across calls (R6)
# a cached rolling key ("saves a seek + read per read() call"): correct only if every movement of the underlying cursor
# resets or re-establishes it
INIT_TAIL = "        self.nonced_filesize = self.fh.read(4)\n"
RN_HEAD = "        pos = self.fh.tell()\n        try:\n"
SEEK_HEAD = "    def seek(self, offset, whence=io.SEEK_SET):\n        if whence == io.SEEK_SET:\n"
READ_TAIL = ("        if n > 0 and len(data) > n:\n            # data is decoded in 4-byte words, give back what was not asked for\n"
             "            self.fh.seek(n - len(data), io.SEEK_CUR)\n            data = data[:n]\n        return data\n")
KC_INIT = (F, INIT_TAIL, INIT_TAIL + "        self._key = None\n")
KC_RN = (F, RN_HEAD, "        if self._key is not None:\n            return self._key\n" + RN_HEAD)
KC_SEEK = (F, SEEK_HEAD, "    def seek(self, offset, whence=io.SEEK_SET):\n        self._key = None\n        if whence == io.SEEK_SET:\n")
READ_TAIL_RESET = ("        self._key = nonce\n        if n > 0 and len(data) > n:\n            self.fh.seek(n - len(data), io.SEEK_CUR)\n            data = data[:n]\n"
                   "            self._key = None\n        return data\n")
READ_TAIL_LAST = ("        if n > 0 and len(data) > n:\n            self.fh.seek(n - len(data), io.SEEK_CUR)\n            data = data[:n]\n            nonce = None\n"
                  "        self._key = nonce\n        return data\n")
T("C09", "twin-key-cache-reset-after-giveback", F, "", "", edits=[KC_INIT, KC_RN, KC_SEEK, (F, READ_TAIL, READ_TAIL_RESET)])
T("C09", "twin-key-cache-stored-last-none-when-cut", F, "", "", edits=[KC_INIT, KC_RN, KC_SEEK, (F, READ_TAIL, READ_TAIL_LAST)])
T("C09", "twin-key-cache-giveback-through-own-seek", F, "", "",
  edits=[KC_INIT, KC_RN, KC_SEEK, (F, READ_TAIL, "        self._key = nonce\n        if n > 0 and len(data) > n:\n            self.seek(n - len(data), io.SEEK_CUR)\n            data = data[:n]\n        return data\n")])
M("C09", "key-cache-kept-by-relative-seek", F, "", "", "C09.R6",
  edits=[KC_INIT, KC_RN, (F, SEEK_HEAD, SEEK_HEAD + "            self._key = None\n"), (F, READ_TAIL, READ_TAIL_RESET)])
M("C09", "key-cache-seek-never-resets", F, "", "", "C09.R6", edits=[KC_INIT, KC_RN, (F, READ_TAIL, READ_TAIL_RESET)])
M("C09", "key-cache-stored-per-word-giveback-keeps-it", F, "", "", "C09.R6",
  edits=[KC_INIT, KC_RN, KC_SEEK, (F, "            nonce = chunk\n            if n > 0 and len(data) >= n:", "            nonce = chunk\n            self._key = chunk\n            if n > 0 and len(data) >= n:")])
M("C09", "key-cache-stale-word-stored-after-giveback", F, "", "", "C09.R6",
  edits=[KC_INIT, KC_RN, KC_SEEK, (F, READ_TAIL, READ_TAIL.replace("        return data\n", "        self._key = nonce\n        return data\n"))])
# a cache filled by read_nonce() itself (the word it just fetched) and never dropped when the caller then reads on
M("C09", "key-cache-filled-by-read-nonce-never-dropped", F, "", "", "C09.R6",
  edits=[KC_INIT, KC_SEEK, (F, RN_HEAD, "        if self._key is not None:\n            return self._key\n" + RN_HEAD),
         (F, "        nonce = self.read_nonce()\n        while True:", "        nonce = self._key = self.read_nonce()\n        while True:")])
# state that is not position dependent, or never read back on the read path
T("C09", "twin-read-counter-shown-in-repr", F, "", "",
  edits=[(F, INIT_TAIL, INIT_TAIL + "        self._reads = 0\n"), (F, "        nonce = self.read_nonce()\n        while True:", "        self._reads += 1\n        nonce = self.read_nonce()\n        while True:"),
         (F, 'return f"<XorEncodedFile fh={self.fh}, nonce_offset={self.nonce_offset}>"', 'return f"<XorEncodedFile fh={self.fh}, nonce_offset={self.nonce_offset}, reads={self._reads}>"')])
T("C09", "twin-lazy-decoded-size-memo", F, "", "",
  edits=[(F, INIT_TAIL, INIT_TAIL + "        self._size = None\n"),
         (F, "    def tell(self):\n", "    def decoded_size(self):\n        if self._size is None:\n            self._size = int.from_bytes(xor(self.initial_nonce, self.nonced_filesize), \"little\")\n"
                                      "        return self._size\n\n    def tell(self):\n")])
M("C09", "key-cache-stored-after-giveback-through-own-seek", F, "", "", "C09.R6",
  edits=[KC_INIT, KC_RN, KC_SEEK, (F, READ_TAIL, "        if n > 0 and len(data) > n:\n            self.seek(n - len(data), io.SEEK_CUR)\n            data = data[:n]\n        self._key = nonce\n        return data\n")])
# a cache that remembers the position it belongs to and is checked against the current position where it is used: correct
# without any invalidation (undecided: a validated cache is not followed)
T("C09", "twin-key-cache-validated-by-position", F, "", "",
  edits=[(F, INIT_TAIL, INIT_TAIL + "        self._key = None\n        self._key_pos = -1\n"),
         (F, RN_HEAD, "        if self._key is not None and self._key_pos == self.fh.tell():\n            return self._key\n" + RN_HEAD),
         (F, READ_TAIL, "        self._key, self._key_pos = nonce, self.fh.tell()\n" + READ_TAIL)])
# give-back through the view's own relative seek (no cache involved)
READ_OWN = READ.replace("            self.fh.seek(n - len(data), io.SEEK_CUR)\n", "            self.seek(n - len(data), io.SEEK_CUR)\n")
T("C09", "twin-giveback-through-own-relative-seek", F, READ, READ_OWN)
M("C09", "own-relative-seek-giveback-off-by-one", F, READ, READ_OWN.replace("self.seek(n - len(data), io.SEEK_CUR)", "self.seek(n - len(data) + 1, io.SEEK_CUR)"), "C09.R2")
# ... or is switched off by a validity flag instead of being reset
T("C09", "twin-key-cache-validity-flag", F, "", "",
  edits=[(F, INIT_TAIL, INIT_TAIL + "        self._key = b\"\"\n        self._key_valid = False\n"),
         (F, RN_HEAD, "        if self._key_valid:\n            return self._key\n" + RN_HEAD),
         (F, SEEK_HEAD, "    def seek(self, offset, whence=io.SEEK_SET):\n        self._key_valid = False\n        if whence == io.SEEK_SET:\n"),
         (F, READ_TAIL, "        self._key = nonce\n        self._key_valid = not (n > 0 and len(data) > n)\n" + READ_TAIL)])

# ------------------------------------------------------------------------------------------------ position-preserving helpers (R7)
# read_nonce() looks behind the position for the key word and must leave the cursor where it was whatever the read returns
# (at / beyond the end of the data the read comes up short).  These entries are written against the repaired text: after the
# try/except read_nonce() restores the position absolutely with `self.fh.seek(pos)`.
RESTORE = "        # the read comes up short at or beyond the end of the file: never leave the position changed\n        self.fh.seek(pos)\n"
LOOK = ("        try:\n            self.fh.seek(-4, io.SEEK_CUR)\n            nonce = self.fh.read(4)\n        except OSError:\n            nonce = b\"\\x00\\x00\\x00\\x00\"\n")
# the exact reversal of the repair: the backward seek is compensated by the read alone
M("C09", "read-nonce-position-not-restored", F, RESTORE, "", "C09.R7")
# restored on the exception path only
M("C09", "read-nonce-restored-in-handler-only", F, LOOK + RESTORE, LOOK + "            self.fh.seek(pos)\n", "C09.R7")
# "restored" to wherever the cursor is by then
M("C09", "read-nonce-restored-to-current-position", F, RESTORE, "        self.fh.seek(self.fh.tell())\n", "C09.R7")
# the remembered position used as a relative offset
M("C09", "read-nonce-restore-relative-by-position", F, RESTORE, "        self.fh.seek(pos, io.SEEK_CUR)\n", "C09.R7")
# relative compensation by the nominal size / with the wrong sign
M("C09", "read-nonce-compensated-by-nominal-size", F, RESTORE, "        self.fh.seek(4 - 4, io.SEEK_CUR)\n", "C09.R7")
M("C09", "read-nonce-compensation-wrong-sign", F, RESTORE, "        self.fh.seek(len(nonce) - 4, io.SEEK_CUR)\n", "C09.R7")
# restored only when that is not needed / only for an empty read / for all but one short length
M("C09", "read-nonce-restored-only-after-complete-read", F, RESTORE, "        if len(nonce) == 4:\n            self.fh.seek(pos)\n", "C09.R7")
M("C09", "read-nonce-restored-only-after-empty-read", F, RESTORE, "        if not nonce:\n            self.fh.seek(pos)\n", "C09.R7")
M("C09", "read-nonce-conditional-restore-off-by-one", F, RESTORE, "        if len(nonce) < 3:\n            self.fh.seek(pos)\n", "C09.R7")
# restored through the view's own seek() without translating the raw position into a logical one
M("C09", "read-nonce-restored-through-own-seek-untranslated", F, RESTORE, "        self.seek(pos)\n", "C09.R7")
# the position is remembered after the look-behind has already moved the cursor
M("C09", "read-nonce-remembers-position-too-late", F, LOOK + RESTORE,
  LOOK.replace("            nonce = self.fh.read(4)\n", "            nonce = self.fh.read(4)\n            back = self.fh.tell()\n").replace("        try:\n", "        back = pos\n        try:\n")
  + "        self.fh.seek(back)\n", "C09.R7")
# other correct spellings of the repair
T("C09", "twin-read-nonce-relative-compensation-by-actual-length", F, RESTORE, "        self.fh.seek(4 - len(nonce), io.SEEK_CUR)\n")
T("C09", "twin-read-nonce-restored-inside-try", F, LOOK + RESTORE, LOOK.replace("            nonce = self.fh.read(4)\n", "            nonce = self.fh.read(4)\n            self.fh.seek(pos)\n"))
T("C09", "twin-read-nonce-restored-in-finally", F, LOOK + RESTORE, LOOK + "        finally:\n            self.fh.seek(pos)\n")
T("C09", "twin-read-nonce-restored-in-else", F, LOOK + RESTORE, LOOK + "        else:\n            self.fh.seek(pos)\n")
T("C09", "twin-read-nonce-restored-when-short", F, RESTORE, "        if len(nonce) < 4:\n            self.fh.seek(pos)\n")
T("C09", "twin-read-nonce-restored-unless-complete", F, RESTORE, "        if len(nonce) != 4:\n            self.fh.seek(pos, io.SEEK_SET)\n")
T("C09", "twin-read-nonce-absolute-look-behind", F, "            self.fh.seek(-4, io.SEEK_CUR)\n            nonce = self.fh.read(4)", "            self.fh.seek(pos - 4)\n            nonce = self.fh.read(4)")
T("C09", "twin-read-nonce-restored-through-own-seek", F, RESTORE, "        self.seek(pos - (self.nonce_offset + 8))\n")
T("C09", "twin-read-nonce-restored-by-named-position", F, RESTORE, "        here = pos\n        self.fh.seek(here, io.SEEK_SET)\n")
# the look-behind in a method of its own that restores the position itself
T("C09", "twin-read-nonce-look-behind-method", F, "", "",
  edits=[(F, LOOK + RESTORE, "        nonce = self._word_before(pos)\n"),
         (F, "    def tell(self):\n", "    def _word_before(self, pos):\n        try:\n            self.fh.seek(-4, io.SEEK_CUR)\n            word = self.fh.read(4)\n        except OSError:\n"
                                      "            word = b\"\\x00\\x00\\x00\\x00\"\n        self.fh.seek(pos)\n        return word\n\n    def tell(self):\n")])
M("C09", "look-behind-method-does-not-restore", F, "", "", "C09.R7",
  edits=[(F, LOOK + RESTORE, "        nonce = self._word_before(pos)\n"),
         (F, "    def tell(self):\n", "    def _word_before(self, pos):\n        try:\n            self.fh.seek(-4, io.SEEK_CUR)\n            word = self.fh.read(4)\n        except OSError:\n"
                                      "            word = b\"\\x00\\x00\\x00\\x00\"\n        return word\n\n    def tell(self):\n")])

# ---- R8: anchors of relative seeks.  The end a SEEK_END seek is measured from is the end read() reads up to (the end of the
# underlying file), the position a SEEK_CUR seek is measured from is the cursor of the underlying file: a target computed from the
# header words / constructor arguments / the offset alone cannot be right (def-use value flow of the seek target).
# the decoded size word cached by the constructor ("the header says how long the payload is") as the end anchor
M("C09", "seek-end-anchored-at-size-cached-by-constructor", F, "", "", "C09.R8",
  edits=[(F, INIT, INIT + "        self.payload_size = int.from_bytes(xor(self.nonced_filesize, self.initial_nonce), \"little\")\n"),
         (F, SEEK, SEEK2.replace(TAIL2, "        if whence == io.SEEK_END:\n            return self.fh.seek(self.nonce_offset + 8 + self.payload_size + offset)" + BACK + "\n" + TAIL2))])
# on top of the elif-chain shape: the end anchor computed in place from the header words
M("C09", "seek-elif-chain-end-from-header-words", F, SEEK,
  SEEK_CHAIN.replace("if whence == io.SEEK_CUR or whence == io.SEEK_END:\n            pos = self.fh.seek(offset, whence)",
                     "if whence == io.SEEK_END:\n            end = self.nonce_offset + 8 + u32(xor(self.initial_nonce, self.nonced_filesize))\n            pos = self.fh.seek(end + offset, io.SEEK_SET)\n"
                     "        elif whence == io.SEEK_CUR:\n            pos = self.fh.seek(offset, whence)"), "C09.R8")
# SEEK_END served relative to the current position
M("C09", "seek-end-served-as-relative-to-position", F, SEEK,
  SEEK2.replace(TAIL2, "        return self.fh.seek(offset, io.SEEK_CUR)" + BACK + "\n"), "C09.R8")
# SEEK_CUR rebased as an absolute seek by rebinding offset and whence together (tuple assignment)
M("C09", "seek-cur-rebound-as-absolute", F, SEEK,
  SEEK.replace("        if whence == io.SEEK_SET:\n", "        if whence == io.SEEK_CUR:\n            offset, whence = offset, io.SEEK_SET\n        if whence == io.SEEK_SET:\n"), "C09.R8")
# SEEK_END rebound as SEEK_SET with a constant anchor
M("C09", "seek-end-rebound-with-constant-anchor", F, SEEK,
  SEEK.replace("        if whence == io.SEEK_SET:\n", "        if whence == io.SEEK_END:\n            whence, offset = io.SEEK_SET, offset + 4096\n        if whence == io.SEEK_SET:\n"), "C09.R8")
# twins: the translation written as a rebinding of (offset, whence); relative seeks through quantities the underlying file reports
T("C09", "twin-seek-tuple-rebinding", F, SEEK,
  "    def seek(self, offset, whence=io.SEEK_SET):\n        if whence == io.SEEK_SET:\n            offset, whence = offset + self.nonce_offset + 8, io.SEEK_SET\n        self.fh.seek(offset, whence)\n        return self.tell()\n")
T("C09", "twin-seek-end-measured-then-absolute", F, SEEK,
  SEEK2.replace(TAIL2, "        if whence == io.SEEK_END:\n            end = self.fh.seek(0, io.SEEK_END)\n            return self.fh.seek(end + offset)" + BACK + "\n" + TAIL2))
T("C09", "twin-seek-cur-through-tell", F, SEEK,
  SEEK2.replace(TAIL2, "        if whence == io.SEEK_CUR:\n            return self.fh.seek(self.fh.tell() + offset)" + BACK + "\n" + TAIL2))
# the end measured once by the constructor (a read-only file does not grow) and used as the anchor
T("C09", "twin-seek-end-anchored-at-end-measured-by-constructor", F, "", "",
  edits=[(F, INIT, "        self._raw_end = self.fh.seek(0, io.SEEK_END)\n" + INIT),
         (F, SEEK, SEEK2.replace(TAIL2, "        if whence == io.SEEK_END:\n            return self.fh.seek(self._raw_end + offset)" + BACK + "\n" + TAIL2))])

# ------------------------------------------------------------------------------------------------ wave 7
# R2: the give-back puts the file at <position before the reads> + n - right only when at least n bytes were consumed.  With n > 0 and
# fewer than n bytes consumed (data ends early, read at / beyond EOF) it must not be executed.
GUARD = "        if n > 0 and len(data) > n:\n"
M("C09", "giveback-guard-loses-surplus-test", F, GUARD, "        if n > 0:\n", "C09.R2")
M("C09", "giveback-whenever-length-differs", F, GUARD, "        if n > 0 and len(data) != n:\n", "C09.R2")
M("C09", "list-join-giveback-whenever-total-differs", F, READ, READ_LIST.replace("if n > 0 and total > n:", "if n > 0 and total != n:"), "C09.R2")
M("C09", "countdown-giveback-whenever-remaining-nonzero", F, READ, READ_DOWN.replace("if n > 0 and remaining < 0:", "if n > 0 and remaining:").replace(
    "if n > 0 and remaining:", "if n > 0 and remaining != 0:"), "C09.R2")
M("C09", "giveback-guard-tests-data-only", F, GUARD, "        if n > 0 and data:\n", "C09.R2")
T("C09", "twin-giveback-guard-chained-comparison", F, GUARD, "        if 0 < n < len(data):\n")
T("C09", "twin-giveback-guard-flag", F, GUARD, "        cut = n > 0 and len(data) > n\n        if cut:\n")
T("C09", "twin-giveback-guard-nested-surplus", F,
  GUARD + "            # data is decoded in 4-byte words, give back what was not asked for\n            self.fh.seek(n - len(data), io.SEEK_CUR)\n            data = data[:n]\n",
  "        if n > 0:\n            surplus = len(data) - n\n            if surplus > 0:\n                self.fh.seek(-surplus, io.SEEK_CUR)\n            data = data[:n]\n")
T("C09", "twin-giveback-absolute-guarded-by-position", F, READ, READ_ABS.replace("if n > 0 and len(data) > n:", "if n > 0 and self.fh.tell() > start + n:"))
T("C09", "twin-read-loop-condition-in-while", F,
  "        while True:\n            chunk = self.fh.read(4)\n            if not chunk:\n                break\n            # log.debug(f\"{chunk}, {nonce}\")\n"
  "            data += xor(chunk, nonce)\n            nonce = chunk\n            if n > 0 and len(data) >= n:\n                break\n",
  "        while n < 0 or len(data) < n:\n            chunk = self.fh.read(4)\n            if len(chunk) == 0:\n                break\n"
  "            data += xor(chunk, nonce)\n            nonce = chunk\n")

# R4: nothing but the MZ validation rejects a candidate (located via the marker, the size field, or both; header words arbitrary)
BUILD = "            xf = cls(fh, nonce_offset=found_nonce_offset)\n"
M("C09", "candidate-needs-both-votes", F, BUILD, "            if count < 2:\n                continue\n" + BUILD, "C09.R4")
M("C09", "candidate-must-be-size-relation-candidate", F, BUILD, "            if offset not in nonce_offsets:\n                continue\n" + BUILD, "C09.R4")
M("C09", "candidate-with-implausible-size-word-skipped", F, "", "", "C09.R4",
  edits=[(F, TRY, TRY_ELSE.replace("            mz = pe.find_mz_offset(cast(BinaryIO, xf))\n",
                                   "            declared = int.from_bytes(xor(xf.nonced_filesize, xf.initial_nonce), \"little\")\n            plausible = 0 < declared < 0x1000000\n"
                                   "            if not plausible:\n                continue\n            mz = pe.find_mz_offset(cast(BinaryIO, xf))\n"))])
M("C09", "candidate-with-zero-nonce-ends-search", F, BUILD, BUILD + "            if xf.initial_nonce == bytes(4):\n                break\n", "C09.R4")
# not decided (silent): tests on the candidate offset / on how much of the header is there
T("C09", "twin-negative-candidate-skipped", F, BUILD, "            if offset < 0:\n                continue\n" + BUILD)
T("C09", "twin-candidate-without-complete-header-skipped", F, BUILD, BUILD + "            if len(xf.nonced_filesize) < 4:\n                continue\n")

# ------------------------------------------------------------------------------------------------ wave 8
# R9 (finding F25): what seek() returns is the position tell() reports for the cursor the seek leaves behind - a file object returns
# its new position from seek().  The returned value and tell()'s value are terms over the symbolic cursor; the result of the
# underlying seek is a position in the *encoded* file and has to be translated back.
HDR_S = "    def seek(self, offset, whence=io.SEEK_SET):\n"
M("C09", "seek-returns-raw-result-after-adjusting-offset", F, SEEK, HDR_S + "        if whence == io.SEEK_SET:\n            offset += self.nonce_offset + 8\n        return self.fh.seek(offset, whence)\n", "C09.R9")
M("C09", "seek-returns-nothing", F, "        # report the position in the decoded data, not in the underlying file\n        return self.tell()\n", "", "C09.R9")
M("C09", "seek-returns-none-explicitly", F, "        # report the position in the decoded data, not in the underlying file\n        return self.tell()\n", "        return None\n", "C09.R9")
M("C09", "seek-returns-position-before-the-seek", F, SEEK,
  HDR_S + "        pos = self.tell()\n        if whence == io.SEEK_SET:\n            offset += self.nonce_offset + 8\n        self.fh.seek(offset, whence)\n        return pos\n", "C09.R9")
M("C09", "seek-returns-offset-argument-for-every-whence", F, "        # report the position in the decoded data, not in the underlying file\n        return self.tell()\n", "        return offset\n", "C09.R9")
M("C09", "seek-returns-raw-tell", F, "        # report the position in the decoded data, not in the underlying file\n        return self.tell()\n", "        return self.fh.tell()\n", "C09.R9")
M("C09", "seek-result-translated-back-by-one-word", F, SEEK, SEEK2.replace(TAIL2, "        return self.fh.seek(offset, whence) - (self.nonce_offset + 4)\n"), "C09.R9")
M("C09", "seek-result-translated-back-for-absolute-seeks-only", F, SEEK, SEEK2.replace(TAIL2, "        return self.fh.seek(offset, whence)\n"), "C09.R9")
M("C09", "seek-elif-chain-returns-raw-result", F, SEEK, SEEK_CHAIN.replace("        return pos - (8 + self.nonce_offset)\n", "        return pos\n"), "C09.R9")
M("C09", "seek-result-translated-back-twice", F, SEEK, SEEK_ADJ.replace("        return pos - self.nonce_offset - 8\n", "        pos -= self.nonce_offset + 8\n        return pos - self.nonce_offset - 8\n"), "C09.R9")
M("C09", "property-shape-relative-seek-returns-raw-result", F, "", "", "C09.R9",
  edits=[(F, HDR[0], HDR[1]), (F, TELL, TELL_P), (F, SEEK, SEEK_P.replace("            return self.fh.seek(offset, whence) - self._data_start\n", "            return self.fh.seek(offset, whence)\n"))])
# twins: other spellings of "the position tell() reports"
T("C09", "twin-seek-absolute-returns-its-offset", F, SEEK,
  HDR_S + "        if whence == io.SEEK_SET:\n            self.fh.seek(offset + self.nonce_offset + 8)\n            return offset\n" + TAIL2)
T("C09", "twin-seek-returns-own-tell-through-local", F, "        # report the position in the decoded data, not in the underlying file\n        return self.tell()\n",
  "        where = self.tell()\n        return where\n")
T("C09", "twin-seek-returns-raw-tell-translated", F, "        # report the position in the decoded data, not in the underlying file\n        return self.tell()\n",
  "        raw = self.fh.tell()\n        return raw - 8 - self.nonce_offset\n")
T("C09", "twin-tell-through-local-seek-result-translated", F, "", "",
  edits=[(F, TELL, "    def tell(self):\n        raw_pos = self.fh.tell()\n        header = self.nonce_offset + 8\n        return raw_pos - header\n"), (F, SEEK, SEEK_ADJ)])
T("C09", "twin-seek-returns-tell-with-key-cache-reset", F, "", "", edits=[KC_INIT, KC_RN, KC_SEEK])
T("C09", "twin-seek-result-adjusted-in-place", F, SEEK, SEEK_ADJ.replace("        return pos - self.nonce_offset - 8\n", "        pos -= self.nonce_offset + 8\n        return pos\n"))
SEEK_ARMS = (HDR_S + "        raw = self.fh.seek(offset + self.nonce_offset + 8) if whence == io.SEEK_SET else self.fh.seek(offset, whence)\n        return raw - (self.nonce_offset + 8)\n")
T("C09", "twin-seek-conditional-expression-of-two-seeks", F, SEEK, SEEK_ARMS)
M("C09", "seek-conditional-expression-returns-raw-result", F, SEEK, SEEK_ARMS.replace("        return raw - (self.nonce_offset + 8)\n", "        return raw\n"), "C09.R9")
M("C09", "seek-conditional-expression-absolute-arm-forgets-header", F, SEEK, SEEK_ARMS.replace("self.fh.seek(offset + self.nonce_offset + 8) if", "self.fh.seek(offset + self.nonce_offset) if"), "C09.R1")
