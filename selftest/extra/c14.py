"""Additional C14 corpus entries: behaviour-preserving refactorings (twins) the rules must stay silent on, and breaking
variants of the *refactored* shapes (mutants) the rules must still report."""

import os

from selftest.corpus import M, T

# ------------------------------------------------------------------------------------------------ source anchors
_V_RAW = (
    "        if self._raw_settings is None:\n"
    "            self._raw_settings = self.settings_map(index_type=\"name\")\n"
    "        return self._raw_settings\n"
)
_V_RAWI = (
    "        if self._raw_settings_by_index is None:\n"
    "            self._raw_settings_by_index = self.settings_map(index_type=\"const\")\n"
    "        return self._raw_settings_by_index\n"
)
_V_SET = (
    "        if self._settings is None:\n"
    "            self._settings = self.settings_map(index_type=\"name\", pretty=True)\n"
    "        return self._settings\n"
)
_V_SETI = (
    "        if self._settings_by_index is None:\n"
    "            self._settings_by_index = self.settings_map(index_type=\"const\", pretty=True)\n"
    "        return self._settings_by_index\n"
)
_MAP_RET = "            settings[key] = val\n        return MappingProxyType(settings)\n"
_MAP_HEAD = "    def settings_map(self, index_type=\"enum\", pretty=False, parse=True) -> MappingProxyType:\n"
_INIT_STEPS = (
    "        self.tsteps: List[TransformStep] = list(steps)\n"
    "        self.rsteps: List[TransformStep] = steps[::-1]\n"
)
_SWAP = "            self.tsteps, self.rsteps = self.rsteps, self.tsteps\n"
_T_LOOP = "        data: bytes = b\"\"\n        for step, step_val in self.tsteps:\n"
_R_LOOP = "        for step, step_val in self.rsteps:\n            step = step.lower()\n            if step == \"append\":\n                if isinstance(step_val, bytes):"
_FF_FIRST = (
    "            bconfig.pe_compile_stamp, bconfig.pe_export_stamp = pe.find_compile_stamps(fh)\n"
    "            bconfig.architecture = pe.find_architecture(fh)\n"
)
_FF_SECOND = (
    "            bconfig.pe_compile_stamp, bconfig.pe_export_stamp = pe.find_compile_stamps(fxor)\n"
    "            bconfig.architecture = pe.find_architecture(fxor)\n"
)
_FF_XOR = (
    "            bconfig.xorkey = extra_info[\"xorkey\"]\n"
    "            bconfig.xorencoded = extra_info[\"xorencoded\"]\n"
)
_C2HTTP = (
    "        self.transform_submit = HttpDataTransform(steps=bconfig.settings[\"SETTING_C2_POSTREQ\"])\n"
    "        self.transform_get = HttpDataTransform(steps=bconfig.settings[\"SETTING_C2_REQUEST\"])\n"
    "        self.transform_response = HttpDataTransform(\n"
    "            steps=bconfig.settings[\"SETTING_C2_RECOVER\"], reverse=True, build=\"output\"\n"
    "        )\n"
)
_RECOVER = (
    "                c2_recover = []\n"
    "                for k, v in value:\n"
    "                    if v is True:\n"
    "                        c2_recover.append(k)\n"
    "                    elif isinstance(v, int):\n"
    "                        c2_recover.append((k, \"X\" * v))\n"
    "                    else:\n"
    "                        c2_recover.append((k, v))\n"
)

# getattr/setattr helper shared by the four views (kwargs keep the normaliser from inlining it)
_HELPER = (
    "    def _cached_view(self, slot, **kw):\n"
    "        cached = getattr(self, slot)\n"
    "        if cached is not None:\n"
    "            return cached\n"
    "        cached = self.settings_map(**kw)\n"
    "        setattr(self, slot, cached)\n"
    "        return cached\n\n"
)
_HELPER_EDITS = [
    ("beacon.py", _MAP_HEAD, _HELPER + _MAP_HEAD),
    ("beacon.py", _V_RAW, "        return self._cached_view(\"_raw_settings\", index_type=\"name\")\n"),
    ("beacon.py", _V_RAWI, "        return self._cached_view(\"_raw_settings_by_index\", index_type=\"const\")\n"),
    ("beacon.py", _V_SET, "        return self._cached_view(\"_settings\", index_type=\"name\", pretty=True)\n"),
    ("beacon.py", _V_SETI, "        return self._cached_view(\"_settings_by_index\", index_type=\"const\", pretty=True)\n"),
]

# ================================================================================================ R2: views
# These twins also pass through C02.R3 (imported here as R5, not a rule of this module).  C14.R2/R3 are silent on them; if
# C02.R3 does not understand one of the shapes the remaining alarm is `[C02.R3]` - set C14_SKIP_TWINS_NEEDING_C02_R3=1 to
# leave them out.
_SKIP_NEEDING_C02_R3 = bool(os.environ.get("C14_SKIP_TWINS_NEEDING_C02_R3"))


def _T_via_c02(*a, **kw):
    if not _SKIP_NEEDING_C02_R3:
        T(*a, **kw)


_T_via_c02("C14", "twin-view-early-return", "beacon.py", _V_SET,
  "        if self._settings is not None:\n            return self._settings\n"
  "        self._settings = self.settings_map(index_type=\"name\", pretty=True)\n        return self._settings\n")
T("C14", "twin-map-proxy-via-local", "beacon.py", _MAP_RET,
  "            settings[key] = val\n        view = MappingProxyType(settings)\n        return view\n")
T("C14", "twin-map-proxy-via-helper", "beacon.py", "", "", edits=[
    ("beacon.py", _MAP_RET, "            settings[key] = val\n        return _read_only(settings)\n"),
    ("beacon.py", "class BeaconConfig:\n", "def _read_only(mapping):\n    return MappingProxyType(mapping)\n\n\nclass BeaconConfig:\n"),
])
_T_via_c02("C14", "twin-views-getattr-helper", "beacon.py", "", "", edits=_HELPER_EDITS)
_T_via_c02("C14", "twin-view-fill-via-local", "beacon.py", _V_RAW,
           "        if self._raw_settings is None:\n            mapping = self.settings_map(index_type=\"name\")\n"
           "            self._raw_settings = mapping\n        return self._raw_settings\n")
_T_via_c02("C14", "twin-view-return-local", "beacon.py", _V_RAWI,
           "        view = self._raw_settings_by_index\n        if view is None:\n"
           "            view = self._raw_settings_by_index = self.settings_map(index_type=\"const\")\n        return view\n")
M("C14", "views-helper-caches-dict", "beacon.py", "", "", "C14.R2", edits=[
    (f, o, n.replace("cached = self.settings_map(**kw)", "cached = dict(self.settings_map(**kw))")) for f, o, n in _HELPER_EDITS])
M("C14", "view-returns-copy", "beacon.py", _V_SET,
  "        if self._settings is None:\n            self._settings = self.settings_map(index_type=\"name\", pretty=True)\n"
  "        return dict(self._settings)\n", "C14.R2")
M("C14", "view-slot-prefilled-with-dict", "beacon.py", "        self._raw_settings: Optional[Mapping[str, Any]] = None\n",
  "        self._raw_settings = {s.index.name: s.value for s in self.settings_tuple}\n", "C14.R2")
M("C14", "map-proxy-only-when-pretty", "beacon.py", _MAP_RET,
  "            settings[key] = val\n        if pretty:\n            return MappingProxyType(settings)\n        return settings\n", "C14.R2")

# ================================================================================================ R3: who may write
T("C14", "twin-from-file-pe-helper", "beacon.py", "", "", edits=[
    ("beacon.py", _FF_FIRST, "            _set_pe_metadata(bconfig, fh)\n"),
    ("beacon.py", _FF_SECOND, "            _set_pe_metadata(bconfig, fxor)\n"),
    ("beacon.py", "class BeaconConfig:\n",
     "def _set_pe_metadata(bconfig, fh):\n    bconfig.pe_compile_stamp, bconfig.pe_export_stamp = pe.find_compile_stamps(fh)\n"
     "    bconfig.architecture = pe.find_architecture(fh)\n\n\nclass BeaconConfig:\n"),
])
T("C14", "twin-from-file-pe-helper-kwargs", "beacon.py", "", "", edits=[
    ("beacon.py", _FF_FIRST, "            _set_metadata(bconfig, architecture=pe.find_architecture(fh))\n"
                             "            bconfig.pe_compile_stamp, bconfig.pe_export_stamp = pe.find_compile_stamps(fh)\n"),
    ("beacon.py", "class BeaconConfig:\n",
     "def _set_metadata(bconfig, **fields):\n    for name, value in fields.items():\n        setattr(bconfig, name, value)\n\n\nclass BeaconConfig:\n"),
])
T("C14", "twin-from-file-xor-setattr-loop", "beacon.py", _FF_XOR,
  "            for name in (\"xorkey\", \"xorencoded\"):\n                setattr(bconfig, name, extra_info[name])\n")
_T_via_c02("C14", "twin-init-cache-helper-method", "beacon.py", "", "", edits=[
    ("beacon.py",
     "        self._settings: Optional[Mapping[str, Any]] = None\n        self._settings_by_index: Optional[Mapping[int, Any]] = None\n"
     "        self._raw_settings: Optional[Mapping[str, Any]] = None\n        self._raw_settings_by_index: Optional[Mapping[int, Any]] = None\n",
     "        self._reset_caches(_settings=None, _settings_by_index=None)\n"
     "        self._raw_settings: Optional[Mapping[str, Any]] = None\n        self._raw_settings_by_index: Optional[Mapping[int, Any]] = None\n"),
    ("beacon.py", _MAP_HEAD, "    def _reset_caches(self, **slots):\n        self._settings = slots[\"_settings\"]\n"
                             "        self._settings_by_index = slots[\"_settings_by_index\"]\n\n" + _MAP_HEAD),
])
M("C14", "view-rewrites-settings-tuple", "beacon.py", _V_RAW,
  "        if self._raw_settings is None:\n            self.settings_tuple = tuple(sorted(self.settings_tuple))\n"
  "            self._raw_settings = self.settings_map(index_type=\"name\")\n        return self._raw_settings\n", "C14.R3")
M("C14", "helper-writes-existing-config", "beacon.py", "", "", "C14.R3", edits=[
    ("beacon.py", "class BeaconConfig:\n",
     "def _set_metadata(bconfig, **fields):\n    for name, value in fields.items():\n        setattr(bconfig, name, value)\n\n\nclass BeaconConfig:\n"),
    ("beacon.py", "        protocol = self.raw_settings.get(\"SETTING_PROTOCOL\", None)\n",
     "        protocol = self.raw_settings.get(\"SETTING_PROTOCOL\", None)\n        _set_metadata(self, architecture=None)\n"),
])
M("C14", "setattr-on-config-outside-beacon", "pcap.py", "                        self.bconfig = bconfig\n",
  "                        self.bconfig = bconfig\n                        setattr(bconfig, \"xorencoded\", False)\n", "C14.R3")

# ================================================================================================ R4: step lists
T("C14", "twin-steps-loop-over-local", "c2.py", _T_LOOP,
  "        data: bytes = b\"\"\n        steps = self.tsteps\n        for step, step_val in steps:\n")
T("C14", "twin-steps-local-copy-reversed", "c2.py", _R_LOOP,
  "        pending = list(self.rsteps)\n        pending.reverse()\n        pending.reverse()\n" + _R_LOOP.replace("self.rsteps", "pending"))
M("C14", "recover-pops-steps-via-local", "c2.py", _R_LOOP,
  "        pending = self.rsteps\n        pending.reverse()\n" + _R_LOOP.replace("self.rsteps", "pending"), "C14.R4")
M("C14", "transform-consumes-steps", "c2.py", _T_LOOP,
  "        data: bytes = b\"\"\n        while self.tsteps:\n            step, step_val = self.tsteps.pop(0)\n", "C14.R4")

# ================================================================================================ R1: alias analysis
T("C14", "twin-steps-copied-by-rebinding", "c2.py", _INIT_STEPS,
  "        steps = list(steps)\n        self.tsteps: List[TransformStep] = steps\n        self.rsteps: List[TransformStep] = steps[::-1]\n")
T("C14", "twin-steps-star-copy", "c2.py", _INIT_STEPS,
  "        self.tsteps: List[TransformStep] = [*steps]\n        self.rsteps: List[TransformStep] = list(reversed(steps))\n")
T("C14", "twin-swap-via-temporary", "c2.py", _SWAP,
  "            forward = self.tsteps\n            self.tsteps = self.rsteps\n            self.rsteps = forward\n")
T("C14", "twin-c2http-settings-local-positional", "c2.py", _C2HTTP,
  "        settings = bconfig.settings\n"
  "        self.transform_submit = HttpDataTransform(settings[\"SETTING_C2_POSTREQ\"])\n"
  "        self.transform_get = HttpDataTransform(settings[\"SETTING_C2_REQUEST\"])\n"
  "        self.transform_response = HttpDataTransform(settings[\"SETTING_C2_RECOVER\"], True, \"output\")\n")
T("C14", "twin-profile-recover-comprehension", "c2profile.py", _RECOVER,
  "                c2_recover = [k if v is True else (k, \"X\" * v) if isinstance(v, int) else (k, v) for k, v in value]\n")
T("C14", "twin-profile-recover-copy-then-rewrite", "c2profile.py", _RECOVER,
  "                c2_recover = list(value)\n                for i, (k, v) in enumerate(c2_recover):\n"
  "                    if v is True:\n                        c2_recover[i] = k\n"
  "                    elif isinstance(v, int):\n                        c2_recover[i] = (k, \"X\" * v)\n")
T("C14", "twin-profile-value-rebound-to-copy", "c2profile.py", _RECOVER,
  "                value = list(value)\n                value.reverse()\n                value.reverse()\n" + _RECOVER)
M("C14", "steps-rebound-to-itself", "c2.py", _INIT_STEPS,
  "        steps = steps or []\n        self.tsteps: List[TransformStep] = steps\n        self.rsteps: List[TransformStep] = steps[::-1]\n", "C14.R1")
M("C14", "c2http-local-settings-sorted", "c2.py", _C2HTTP,
  "        settings = bconfig.settings\n        settings[\"SETTING_C2_RECOVER\"].sort()\n" + _C2HTTP, "C14.R1")
M("C14", "profile-recover-alias-then-rewrite", "c2profile.py", _RECOVER,
  "                c2_recover = value\n                for i, (k, v) in enumerate(c2_recover):\n"
  "                    if v is True:\n                        c2_recover[i] = k\n"
  "                    elif isinstance(v, int):\n                        c2_recover[i] = (k, \"X\" * v)\n", "C14.R1")

# ================================================================================================ R6: shared objects
T("C14", "twin-module-table-copied-before-edit", "beacon.py",
  "        settings = OrderedDict()\n        for setting in self.settings_tuple:\n",
  "        pretty_funcs = dict(SETTING_TO_PRETTYFUNC)\n        pretty_funcs.pop(None, None)\n"
  "        settings = OrderedDict()\n        for setting in self.settings_tuple:\n")
M("C14", "module-table-edited-in-place", "beacon.py",
  "        settings = OrderedDict()\n        for setting in self.settings_tuple:\n",
  "        pretty_funcs = SETTING_TO_PRETTYFUNC\n        pretty_funcs.pop(None, None)\n"
  "        settings = OrderedDict()\n        for setting in self.settings_tuple:\n", "C14.R6")

# ================================================================================================ more kinds of refactoring
T("C14", "twin-steps-conditional-expressions", "c2.py", "", "", edits=[
    ("c2.py", _INIT_STEPS,
     "        self.tsteps: List[TransformStep] = steps[::-1] if reverse else list(steps)\n"
     "        self.rsteps: List[TransformStep] = list(steps) if reverse else steps[::-1]\n"),
    ("c2.py", "        if reverse:\n" + _SWAP, ""),
])
T("C14", "twin-encoders-table-hoisted", "c2.py", "", "", edits=[
    ("c2.py", "class HttpDataTransform:\n",
     "_ENCODERS = {\"base64\": base64.b64encode, \"base64url\": base64.urlsafe_b64encode}\n\n\nclass HttpDataTransform:\n"),
    ("c2.py", "            elif step == \"base64\":\n                data = base64.b64encode(data)\n"
              "            elif step == \"base64url\":\n                data = base64.urlsafe_b64encode(data)\n",
     "            elif step in _ENCODERS:\n                data = _ENCODERS[step](data)\n"),
])
M("C14", "module-level-transform-memo", "c2.py", "", "", "C14.R6", edits=[
    ("c2.py", "class HttpDataTransform:\n", "_SEEN_STEPS = {}\n\n\nclass HttpDataTransform:\n"),
    ("c2.py", _T_LOOP, "        _SEEN_STEPS[len(_SEEN_STEPS)] = c2data\n" + _T_LOOP),
])
# memoised factories (benign C10n hoists the call-invariant `Reconstructor(c2profile_parser)` into a zero-argument
# lru_cache factory): the cached object is a lazily built module-level object; the twins keep it inside the functions that
# use it, the mutants modify it or hand it to the callers of an entry point
_C2P_IMPORT = ("c2profile.py", "import collections\nimport logging\n", "import collections\nimport functools\nimport logging\n")
_C2P_TEXT = "        return Reconstructor(c2profile_parser).reconstruct(self.tree, postproc)\n"
_C2P_DICT = "        items = Reconstructor(c2profile_parser)._reconstruct(self.tree)\n"
_C2P_VTS = "def value_to_string(value: Union[str, bytes]) -> str:\n"
_MBL = "    return sorted({p8(x) for x in range(256)} - set(exclude or []))\n"
_MBL_DEF = "def make_byte_list(exclude: List[bytes] = None) -> List[bytes]:\n"
T("C14", "twin-shared-reconstructor-functools-cache-local", "c2profile.py", "", "", edits=[
    _C2P_IMPORT,
    ("c2profile.py", _C2P_VTS, "@functools.cache\ndef _shared_reconstructor():\n    return Reconstructor(c2profile_parser)\n\n\n" + _C2P_VTS),
    ("c2profile.py", _C2P_TEXT, "        reconstructor = _shared_reconstructor()\n        return reconstructor.reconstruct(self.tree, postproc)\n"),
    ("c2profile.py", _C2P_DICT, "        items = _shared_reconstructor()._reconstruct(self.tree)\n"),
])
T("C14", "twin-shared-reconstructor-module-constant", "c2profile.py", "", "", edits=[
    ("c2profile.py", _C2P_VTS, "_RECONSTRUCTOR = Reconstructor(c2profile_parser)\n\n\n" + _C2P_VTS),
    ("c2profile.py", _C2P_TEXT, "        return _RECONSTRUCTOR.reconstruct(self.tree, postproc)\n"),
])
T("C14", "twin-shared-reconstructor-lazy-global", "c2profile.py", "", "", edits=[
    ("c2profile.py", _C2P_VTS, "_reconstructor = None\n\n\ndef _get_reconstructor():\n    global _reconstructor\n    if _reconstructor is None:\n"
                               "        _reconstructor = Reconstructor(c2profile_parser)\n    return _reconstructor\n\n\n" + _C2P_VTS),
    ("c2profile.py", _C2P_TEXT, "        return _get_reconstructor().reconstruct(self.tree, postproc)\n"),
])
T("C14", "twin-memoised-byte-universe-copied-by-user", "beacon.py", "", "", edits=[
    ("beacon.py", _MBL_DEF, "@functools.lru_cache(maxsize=None)\ndef _all_single_bytes():\n    return [p8(x) for x in range(256)]\n\n\n" + _MBL_DEF),
    ("beacon.py", _MBL, "    return sorted(set(_all_single_bytes()) - set(exclude or []))\n"),
])
M("C14", "memoised-byte-universe-edited-by-user", "beacon.py", "", "", "C14.R6", edits=[
    ("beacon.py", _MBL_DEF, "@functools.lru_cache(maxsize=None)\ndef _all_single_bytes():\n    return [p8(x) for x in range(256)]\n\n\n" + _MBL_DEF),
    ("beacon.py", _MBL, "    keys = _all_single_bytes()\n    for key in exclude or []:\n        if key in keys:\n            keys.remove(key)\n    return keys\n"),
])
M("C14", "memoised-byte-universe-handed-out", "beacon.py", "", "", "C14.R6", edits=[
    ("beacon.py", _MBL_DEF, "@functools.lru_cache(maxsize=None)\ndef _all_single_bytes():\n    return [p8(x) for x in range(256)]\n\n\n" + _MBL_DEF),
    ("beacon.py", _MBL, "    if not exclude:\n        return _all_single_bytes()\n" + _MBL),
])
M("C14", "memoised-pretty-function-list-result", "beacon.py", "def parse_execute_list(data: bytes) -> List[str]:\n",
  "@functools.lru_cache(maxsize=64)\ndef parse_execute_list(data: bytes) -> List[str]:\n", "C14.R6")
M("C14", "shared-reconstructor-state-reset-by-user", "c2profile.py", "", "", "C14.R6", edits=[
    _C2P_IMPORT,
    ("c2profile.py", _C2P_VTS, "@functools.lru_cache(maxsize=None)\ndef _shared_reconstructor():\n    return Reconstructor(c2profile_parser)\n\n\n" + _C2P_VTS),
    ("c2profile.py", _C2P_TEXT, "        reconstructor = _shared_reconstructor()\n        reconstructor.rules_for_root.clear()\n"
                                "        return reconstructor.reconstruct(self.tree, postproc)\n"),
])

T("C14", "twin-from-file-next-candidate", "beacon.py",
  "        for config_block, extra_info in iter_beacon_config_blocks(fobj, xor_keys=xor_keys, all_xor_keys=all_xor_keys):\n"
  "            bconfig = cls(config_block)\n",
  "        for candidate in iter_beacon_config_blocks(fobj, xor_keys=xor_keys, all_xor_keys=all_xor_keys):\n"
  "            config_block, extra_info = candidate\n"
  "            bconfig = new_config = cls(config_block)\n")
M("C14", "from-file-reuses-cached-config", "beacon.py", "", "", "C14.R3", edits=[
    ("beacon.py", "class BeaconConfig:\n", "_PARSED_CONFIGS = {}\n\n\nclass BeaconConfig:\n"),
    ("beacon.py", "            bconfig = cls(grconfig.unmasked_beacon_config)\n            bconfig.guardrails = grconfig\n",
     "            bconfig = cls(grconfig.unmasked_beacon_config)\n"
     "            bconfig = _PARSED_CONFIGS.setdefault(grconfig.unmasked_beacon_config, bconfig)\n            bconfig.guardrails = grconfig\n"),
])

# ================================================================================================ R7: published views are final
# (seeded C14e publishes the proxies of two empty mappings into the slots and fills the mappings afterwards by item stores
# in an inlined helper; the mutants below are other changes of that kind, the twins other orders that are harmless)
_MAP_NEW = "        settings = OrderedDict()\n        for setting in self.settings_tuple:\n"
M("C14", "view-published-then-filled-by-update", "beacon.py", _V_SET,
  "        if self._settings is None:\n            mapping = OrderedDict()\n"
  "            self._settings = MappingProxyType(mapping)\n"
  "            mapping.update(self.settings_map(index_type=\"name\", pretty=True))\n        return self._settings\n", "C14.R7")
M("C14", "view-published-then-filled-by-method", "beacon.py", "", "", "C14.R7", edits=[
    ("beacon.py", _MAP_HEAD, "    def _fill(self, mapping, **kw):\n        for key, val in self.settings_map(**kw).items():\n"
                             "            mapping[key] = val\n\n" + _MAP_HEAD),
    ("beacon.py", _V_RAW, "        if self._raw_settings is None:\n            mapping = {}\n"
                          "            self._raw_settings = MappingProxyType(mapping)\n"
                          "            self._fill(mapping, index_type=\"name\")\n        return self._raw_settings\n"),
])
M("C14", "view-slot-placeholder-then-rebound", "beacon.py", _V_SETI,
  "        if self._settings_by_index is None:\n            self._settings_by_index = MappingProxyType({})\n"
  "            self._settings_by_index = self.settings_map(index_type=\"const\", pretty=True)\n"
  "        return self._settings_by_index\n", "C14.R7")
M("C14", "map-proxy-stored-in-slot-before-fill", "beacon.py", "", "", "C14.R7", edits=[
    ("beacon.py", _MAP_NEW, "        settings = OrderedDict()\n        self._raw_settings_by_index = view = MappingProxyType(settings)\n"
                            "        for setting in self.settings_tuple:\n"),
    ("beacon.py", _MAP_RET, "            settings[key] = val\n        return view\n"),
])
M("C14", "map-proxy-wraps-mapping-kept-and-edited", "beacon.py", "", "", "C14.R7", edits=[
    ("beacon.py", "        self._raw_settings: Optional[Mapping[str, Any]] = None\n",
     "        self._raw_settings: Optional[Mapping[str, Any]] = None\n        self._last_map = OrderedDict()\n"),
    ("beacon.py", _MAP_RET, "            settings[key] = val\n        self._last_map.clear()\n        self._last_map.update(settings)\n"
                            "        return MappingProxyType(self._last_map)\n"),
])
T("C14", "twin-map-proxy-built-before-fill", "beacon.py", "", "", edits=[
    ("beacon.py", _MAP_NEW, "        settings = OrderedDict()\n        view = MappingProxyType(settings)\n        for setting in self.settings_tuple:\n"),
    ("beacon.py", _MAP_RET, "            settings[key] = val\n        return view\n"),
])
T("C14", "twin-map-proxy-via-helper-with-options", "beacon.py", "", "", edits=[
    ("beacon.py", _MAP_RET, "            settings[key] = val\n        return _read_only(settings, strict=True)\n"),
    ("beacon.py", "class BeaconConfig:\n", "def _read_only(mapping, **options):\n    return MappingProxyType(mapping)\n\n\nclass BeaconConfig:\n"),
])
T("C14", "twin-map-filled-through-alias-then-wrapped", "beacon.py", _MAP_RET,
  "            settings[key] = val\n        ordered = OrderedDict()\n        target = ordered\n        target.update(settings)\n"
  "        return MappingProxyType(ordered)\n")
_T_via_c02("C14", "twin-view-fresh-mapping-per-round", "beacon.py", _V_SET,
           "        if self._settings is None:\n            for pretty in (True,):\n                mapping = OrderedDict()\n"
           "                mapping.update(self.settings_map(index_type=\"name\", pretty=pretty))\n"
           "                self._settings = MappingProxyType(mapping)\n        return self._settings\n")
# the refactoring seeded/C14e pretends to be, done in the harmless order: both mappings are filled first, the proxies are
# stored in the slots last (the helper is inlined by the normaliser)
_ONE_PASS = (
    "    def _cache_views(self, pretty):\n        by_name = OrderedDict()\n        by_index = OrderedDict()\n"
    "        for index, val in self.settings_map(index_type=\"enum\", pretty=pretty).items():\n"
    "            by_name[index.name or str(index).replace(\".\", \"_\")] = val\n            by_index[index.value] = val\n"
    "        if pretty:\n            self._settings, self._settings_by_index = MappingProxyType(by_name), MappingProxyType(by_index)\n"
    "        else:\n            self._raw_settings, self._raw_settings_by_index = MappingProxyType(by_name), MappingProxyType(by_index)\n\n"
)
_T_via_c02("C14", "twin-views-filled-in-one-pass-published-last", "beacon.py", "", "", edits=[
    ("beacon.py", _MAP_HEAD, _ONE_PASS + _MAP_HEAD),
    ("beacon.py", _V_RAW, "        if self._raw_settings is None:\n            self._cache_views(False)\n        return self._raw_settings\n"),
    ("beacon.py", _V_RAWI, "        if self._raw_settings_by_index is None:\n            self._cache_views(False)\n        return self._raw_settings_by_index\n"),
    ("beacon.py", _V_SET, "        if self._settings is None:\n            self._cache_views(True)\n        return self._settings\n"),
    ("beacon.py", _V_SETI, "        if self._settings_by_index is None:\n            self._cache_views(True)\n        return self._settings_by_index\n"),
])

# ================================================================================================ R8: cache hits are determined
# (seeded C14g keeps the mappings of settings_map() in one table keyed on (index_type, pretty), stores only parsed mappings
# and looks the table up whatever `parse` is; the mutants below are other memos whose hit is not determined by every input
# of the cached value, the twins are memos that are)
_INIT_RAW = "        self._raw_settings: Optional[Mapping[str, Any]] = None\n"
_INIT_MAPS = ("beacon.py", _INIT_RAW, _INIT_RAW + "        self._maps = {}\n")
_MEMO_STORE = "            settings[key] = val\n        view = MappingProxyType(settings)\n"
T("C14", "twin-map-memo-complete-key", "beacon.py", "", "", edits=[
    _INIT_MAPS,
    ("beacon.py", _MAP_NEW, "        try:\n            return self._maps[index_type, pretty, parse]\n        except KeyError:\n            pass\n" + _MAP_NEW),
    ("beacon.py", _MAP_RET, _MEMO_STORE + "        self._maps[index_type, pretty, parse] = view\n        return view\n"),
])
T("C14", "twin-map-memo-parsed-only-on-both-sides", "beacon.py", "", "", edits=[
    _INIT_MAPS,
    ("beacon.py", _MAP_NEW, "        parse = parse or pretty\n        memo_key = (index_type, pretty)\n"
                            "        if parse and memo_key in self._maps:\n            return self._maps[memo_key]\n" + _MAP_NEW),
    ("beacon.py", _MAP_RET, _MEMO_STORE + "        if parse:\n            self._maps[memo_key] = view\n        return view\n"),
])
T("C14", "twin-map-memo-get-or-compute-local", "beacon.py", "", "", edits=[
    _INIT_MAPS,
    ("beacon.py", _MAP_NEW, "        memo_key = (index_type, bool(pretty), bool(parse or pretty))\n        view = self._maps.get(memo_key)\n"
                            "        if view is not None:\n            return view\n" + _MAP_NEW),
    ("beacon.py", _MAP_RET, _MEMO_STORE + "        table = self._maps\n        table[memo_key] = view\n        return view\n"),
])
_T_via_c02("C14", "twin-raw-views-share-keyed-table", "beacon.py", "", "", edits=[
    _INIT_MAPS,
    ("beacon.py", _MAP_HEAD, "    def _memo_view(self, index_type, pretty):\n        if index_type not in self._maps:\n"
                             "            self._maps[index_type] = self.settings_map(index_type, pretty)\n"
                             "        return self._maps[index_type]\n\n" + _MAP_HEAD),
    ("beacon.py", _V_RAW, "        return self._memo_view(\"name\", False)\n"),
    ("beacon.py", _V_RAWI, "        return self._memo_view(\"const\", False)\n"),
])
M("C14", "map-memo-key-without-view-flags", "beacon.py", "", "", "C14.R8", edits=[
    _INIT_MAPS,
    ("beacon.py", _MAP_NEW, "        if index_type in self._maps:\n            return self._maps[index_type]\n" + _MAP_NEW),
    ("beacon.py", _MAP_RET, _MEMO_STORE + "        self._maps[index_type] = view\n        return view\n"),
])
M("C14", "map-memo-single-slot", "beacon.py", "", "", "C14.R8", edits=[
    ("beacon.py", _INIT_RAW, _INIT_RAW + "        self._last_map = None\n"),
    ("beacon.py", _MAP_NEW, "        if self._last_map is not None:\n            return self._last_map\n" + _MAP_NEW),
    ("beacon.py", _MAP_RET, _MEMO_STORE + "        self._last_map = view\n        return view\n"),
])
M("C14", "map-memo-stored-only-when-not-pretty", "beacon.py", "", "", "C14.R8", edits=[
    _INIT_MAPS,
    ("beacon.py", _MAP_NEW, "        memo_key = (index_type, parse)\n        cached = self._maps.get(memo_key)\n"
                            "        if cached is not None:\n            return cached\n" + _MAP_NEW),
    ("beacon.py", _MAP_RET, _MEMO_STORE + "        if not pretty:\n            self._maps[memo_key] = view\n        return view\n"),
])
M("C14", "map-memo-setdefault-partial-key", "beacon.py", "", "", "C14.R8", edits=[
    _INIT_MAPS,
    ("beacon.py", _MAP_NEW, "        if (index_type, pretty) in self._maps:\n            return self._maps[index_type, pretty]\n" + _MAP_NEW),
    ("beacon.py", _MAP_RET, "            settings[key] = val\n        return self._maps.setdefault((index_type, pretty), MappingProxyType(settings))\n"),
])
M("C14", "map-memo-lookup-outside-the-store-condition", "beacon.py", "", "", "C14.R8", edits=[
    _INIT_MAPS,
    ("beacon.py", _MAP_NEW, "        if index_type in self._maps:\n            return self._maps[index_type]\n" + _MAP_NEW),
    ("beacon.py", _MAP_RET, _MEMO_STORE + "        if pretty and parse:\n            self._maps[index_type] = view\n        return view\n"),
])
# the same table behind a helper the normaliser leaves in place (**options): `pretty` is not part of the key but the same
# constant at every call of the helper
_T_via_c02("C14", "twin-raw-views-share-keyed-table-kwargs-helper", "beacon.py", "", "", edits=[
    _INIT_MAPS,
    ("beacon.py", _MAP_HEAD, "    def _memo_view(self, index_type, pretty, **options):\n        if index_type not in self._maps:\n"
                             "            self._maps[index_type] = self.settings_map(index_type, pretty)\n"
                             "        return self._maps[index_type]\n\n" + _MAP_HEAD),
    ("beacon.py", _V_RAW, "        return self._memo_view(\"name\", False, strict=True)\n"),
    ("beacon.py", _V_RAWI, "        return self._memo_view(\"const\", False, strict=True)\n"),
])
M("C14", "views-share-keyed-table-kwargs-helper-flag-differs", "beacon.py", "", "", "C14.R8", edits=[
    _INIT_MAPS,
    ("beacon.py", _MAP_HEAD, "    def _memo_view(self, index_type, pretty, **options):\n        if index_type not in self._maps:\n"
                             "            self._maps[index_type] = self.settings_map(index_type, pretty)\n"
                             "        return self._maps[index_type]\n\n" + _MAP_HEAD),
    ("beacon.py", _V_RAW, "        return self._memo_view(\"name\", False, strict=True)\n"),
    ("beacon.py", _V_SET, "        return self._memo_view(\"name\", True, strict=True)\n"),
])

# ================================================================================================ R9: reading a view is pure
# (seeded C14l fills a new OrderedDict subclass whose __missing__ resolves an enum member to the name/const key and "remembers"
# it with an item store - mappingproxy forwards the subscript, so a read inserts a key into the cached view; the mutants below
# are other read hooks / mapping classes that write on a read, the twins are mapping classes whose read hooks are pure)
_CLS_ANCHOR = "class BeaconConfig:\n"
_NEW_OD = ("beacon.py", "        settings = OrderedDict()\n        for setting in self.settings_tuple:\n",
           "        settings = SettingsView()\n        for setting in self.settings_tuple:\n")


def _view_class(body):
    return ("beacon.py", _CLS_ANCHOR, "class SettingsView(OrderedDict):\n" + body + "\n\n" + _CLS_ANCHOR)


M("C14", "view-mapping-defaultdict-factory", "beacon.py", "", "", "C14.R9", edits=[
    ("beacon.py", "        settings = OrderedDict()\n        for setting in self.settings_tuple:\n",
     "        settings = collections.defaultdict(lambda: None)\n        for setting in self.settings_tuple:\n"),
])
M("C14", "view-mapping-lru-getitem-moves-key", "beacon.py", "", "", "C14.R9", edits=[
    _NEW_OD,
    _view_class("    def __getitem__(self, key):\n        value = super().__getitem__(key)\n        self.move_to_end(key)\n        return value\n"),
])
M("C14", "view-mapping-missing-setdefault", "beacon.py", "", "", "C14.R9", edits=[
    _NEW_OD,
    _view_class("    def __missing__(self, key):\n        if isinstance(key, bytes):\n            return self.setdefault(key, self[key.decode()])\n"
                "        raise KeyError(key)\n"),
])
M("C14", "view-mapping-get-stores-default-via-super", "beacon.py", "", "", "C14.R9", edits=[
    _NEW_OD,
    _view_class("    def get(self, key, default=None):\n        if key not in self:\n            super().__setitem__(key, default)\n"
                "        return super().get(key, default)\n"),
])
M("C14", "view-mapping-contains-normalises-key-in-base", "beacon.py", "", "", "C14.R9", edits=[
    ("beacon.py", "        settings = OrderedDict()\n        for setting in self.settings_tuple:\n",
     "        settings = SettingsView() if pretty else _AliasDict()\n        for setting in self.settings_tuple:\n"),
    ("beacon.py", _CLS_ANCHOR,
     "class _AliasDict(dict):\n    def __contains__(self, key):\n        if not dict.__contains__(self, key) and dict.__contains__(self, str(key)):\n"
     "            dict.__setitem__(self, key, dict.__getitem__(self, str(key)))\n        return dict.__contains__(self, key)\n\n\n"
     "class SettingsView(_AliasDict):\n    def __repr__(self):\n        return \"SettingsView(%d settings)\" % len(self)\n\n\n" + _CLS_ANCHOR),
])
M("C14", "view-mapping-missing-remembers-through-helper-kwargs", "beacon.py", "", "", "C14.R9", edits=[
    _NEW_OD,
    _view_class("    def _remember(self, key, value, **options):\n        self[key] = value\n        return value\n\n"
                "    def __missing__(self, key):\n        name = getattr(key, \"name\", None)\n        if name in self:\n"
                "            return self._remember(key, self[name], strict=True)\n        raise KeyError(key)\n"),
])
# the convenience seeded/C14l pretends to be, done without remembering the resolved key
T("C14", "twin-view-mapping-missing-resolves-without-storing", "beacon.py", "", "", edits=[
    _NEW_OD,
    _view_class("    def __missing__(self, key):\n        if isinstance(key, (BeaconSetting, DeprecatedBeaconSetting)):\n"
                "            for alias in (key.name, key.value):\n                if alias in self:\n                    return self[alias]\n"
                "        raise KeyError(key)\n"),
])
T("C14", "twin-view-mapping-subclass-repr-only", "beacon.py", "", "", edits=[
    _NEW_OD,
    _view_class("    def __repr__(self):\n        return \"SettingsView(%s)\" % \", \".join(str(k) for k in self)\n"),
])
T("C14", "twin-view-mapping-from-pairs", "beacon.py", "", "", edits=[
    ("beacon.py", "        settings = OrderedDict()\n        for setting in self.settings_tuple:\n",
     "        pairs = []\n        for setting in self.settings_tuple:\n"),
    ("beacon.py", _MAP_RET, "            pairs.append((key, val))\n        return MappingProxyType(OrderedDict(pairs))\n"),
])
T("C14", "twin-view-mapping-from-factory-helper", "beacon.py", "", "", edits=[
    ("beacon.py", "        settings = OrderedDict()\n        for setting in self.settings_tuple:\n",
     "        settings = _new_mapping(ordered=True)\n        for setting in self.settings_tuple:\n"),
    ("beacon.py", _CLS_ANCHOR, "def _new_mapping(**options):\n    if options.get(\"ordered\"):\n        return OrderedDict()\n    return {}\n\n\n" + _CLS_ANCHOR),
])
T("C14", "twin-view-mapping-defaultdict-without-factory", "beacon.py", "", "", edits=[
    ("beacon.py", "        settings = OrderedDict()\n        for setting in self.settings_tuple:\n",
     "        settings = collections.defaultdict(None)\n        for setting in self.settings_tuple:\n"),
])
T("C14", "twin-view-mapping-subclass-with-write-api", "beacon.py", "", "", edits=[
    _NEW_OD,
    _view_class("    def add(self, key, value):\n        self[key] = value\n        self.move_to_end(key)\n\n"
                "    def __setitem__(self, key, value):\n        super().__setitem__(key, value)\n"),
])
