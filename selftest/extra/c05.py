"""Additional C05 corpus entries: behaviour-preserving refactorings (twins) the rules must stay silent on, and breaking
variants of the *refactored* shapes (mutants) the rules must still report."""

from selftest.corpus import M, T

# ------------------------------------------------------------------------------------------------ source anchors
_RFS = (
    "        signature = hmac.new(hmac_key, self.ciphertext, \"sha256\").digest()[:16]\n"
    "        if signature != self.signature:\n"
    "            raise ValueError(f\"Invalid HMAC signature, expected {signature.hex()} got {self.signature.hex()}\")\n"
)
_PAD = "    to_pad = block_size - len(data) % block_size\n    return data + b\"A\" * to_pad\n"
_ENC = (
    "    if aes_key is None:\n        raise ValueError(\"Cannot encrypt without AES key\")\n"
    "    cipher = AES.new(aes_key, AES.MODE_CBC, iv=iv)\n    return cipher.encrypt(pad(data))\n"
)
_DEC = (
    "    if aes_key is None:\n        raise ValueError(\"Cannot decrypt without AES key\")\n"
    "    cipher = AES.new(aes_key, AES.MODE_CBC, iv=iv)\n    # Beacon and Team Server does not unpad data\n    return cipher.decrypt(data)\n"
)
_DP = (
    "    if verify:\n        if not hmac_key:\n            raise ValueError(\"Cannot verify signature without hmac_key.\")\n"
    "        packet.raise_for_signature(hmac_key)\n    return decrypt_data(packet.ciphertext, aes_key, iv)\n"
)
_EP = (
    "    ciphertext = encrypt_data(plaintext, aes_key=aes_key, iv=iv)\n"
    "    signature = hmac.new(hmac_key, ciphertext, \"sha256\").digest()[:16]\n"
    "    return EncryptedPacket(ciphertext, signature)\n"
)
_SERVER = (
    "        data = self.output\n        if not data:\n            return\n        fobj = io.BytesIO(data)\n"
    "        ciphertext = fobj.read(len(data) - 16)\n        signature = fobj.read(16)\n        yield EncryptedPacket(ciphertext, signature)\n"
)
_CLIENT = (
    "        data = self.output\n        while data:\n            fobj = io.BytesIO(data)\n            size = c2struct.uint32(fobj)\n"
    "            ciphertext = fobj.read(size - 16)\n            signature = fobj.read(16)\n            data = fobj.read()\n"
    "            yield EncryptedPacket(ciphertext, signature)\n"
)
_DUMPS = "        payload = self.ciphertext + self.signature\n        return p32be(len(payload)) + payload\n"
_IMPORT = ("c2.py", "    p32be,\n    xor,\n)", "    p32be,\n    u32be,\n    xor,\n)")
_CALL = "decrypt_packet(enc_packet, verify=self.verify_hmac, **keys._asdict())"


# ================================================================================================ R2 / R3 / R4: verifier
_RFS_EARLY = (
    "        digest = hmac.new(hmac_key, self.ciphertext, \"sha256\").digest()\n        expected = digest[:{n}]\n"
    "        if {test}:\n            return\n"
    "        raise ValueError(f\"Invalid HMAC signature, expected {{expected.hex()}} got {{self.signature.hex()}}\")\n"
)
T("C05", "twin-verifier-early-return", "c2.py", _RFS, _RFS_EARLY.format(n=16, test="expected == self.signature"))
T("C05", "twin-verifier-flag-temp", "c2.py", _RFS,
  "        mac = hmac.new(key=hmac_key, msg=self.ciphertext, digestmod=hashlib.sha256)\n        expected = mac.digest()[0:16]\n"
  "        matches = hmac.compare_digest(self.signature, expected)\n        if not matches:\n"
  "            raise ValueError(f\"Invalid HMAC signature, expected {expected.hex()} got {self.signature.hex()}\")\n")
T("C05", "twin-verifier-oneshot", "c2.py", _RFS,
  "        signature = hmac.digest(hmac_key, self.ciphertext, \"sha256\")[:16]\n        if self.signature == signature:\n            return None\n"
  "        else:\n            raise ValueError(f\"Invalid HMAC signature, expected {signature.hex()} got {self.signature.hex()}\")\n")
T("C05", "twin-verifier-length-precheck", "c2.py", _RFS,
  "        signature = hmac.new(hmac_key, self.ciphertext, \"sha256\").digest()[:16]\n"
  "        if len(self.signature) != len(signature) or signature != self.signature:\n"
  "            raise ValueError(f\"Invalid HMAC signature, expected {signature.hex()} got {self.signature.hex()}\")\n")
T("C05", "twin-verifier-update", "c2.py", _RFS,
  "        mac = hmac.new(hmac_key, digestmod=\"sha256\")\n        mac.update(self.ciphertext)\n        signature = mac.digest()[:16]\n"
  "        if signature != self.signature:\n"
  "            raise ValueError(f\"Invalid HMAC signature, expected {signature.hex()} got {self.signature.hex()}\")\n")
M("C05", "verifier-update-wrong-message", "c2.py", _RFS,
  "        mac = hmac.new(hmac_key, digestmod=\"sha256\")\n        mac.update(self.signature)\n        signature = mac.digest()[:16]\n"
  "        if signature != self.signature:\n"
  "            raise ValueError(f\"Invalid HMAC signature, expected {signature.hex()} got {self.signature.hex()}\")\n", "C05.R3")
M("C05", "early-return-prefix-compare", "c2.py", _RFS, _RFS_EARLY.format(n=16, test="expected[:4] == self.signature[:4]"), "C05.R2")
M("C05", "early-return-inverted", "c2.py", _RFS, _RFS_EARLY.format(n=16, test="expected != self.signature"), "C05.R2")
M("C05", "early-return-digest-8", "c2.py", _RFS, _RFS_EARLY.format(n=8, test="expected == self.signature"), "C05.R4")
M("C05", "verifier-slice-to-signature-length", "c2.py", _RFS,
  "        digest = hmac.new(hmac_key, self.ciphertext, \"sha256\").digest()\n        expected = digest[: len(self.signature)]\n"
  "        if hmac.compare_digest(expected, self.signature):\n            return\n"
  "        raise ValueError(f\"Invalid HMAC signature, expected {expected.hex()} got {self.signature.hex()}\")\n", "C05.R4")
M("C05", "verifier-authenticates-signature", "c2.py", _RFS,
  "        digest = hmac.new(hmac_key, self.signature, \"sha256\").digest()\n        expected = digest[:16]\n"
  "        if expected == self.signature:\n            return\n"
  "        raise ValueError(f\"Invalid HMAC signature, expected {expected.hex()} got {self.signature.hex()}\")\n", "C05.R3")

# ================================================================================================ R3 / R4: signer
T("C05", "twin-signer-keyword-ctor", "c2.py", _EP,
  "    ciphertext = encrypt_data(plaintext, aes_key, iv)\n    mac = hmac.new(hmac_key, ciphertext, hashlib.sha256)\n"
  "    return EncryptedPacket(signature=mac.digest()[:16], ciphertext=ciphertext)\n")
M("C05", "signer-keyword-ctor-aes-key", "c2.py", _EP,
  "    ciphertext = encrypt_data(plaintext, aes_key, iv)\n    mac = hmac.new(aes_key, ciphertext, hashlib.sha256)\n"
  "    return EncryptedPacket(signature=mac.digest()[:16], ciphertext=ciphertext)\n", "C05.R3")
M("C05", "signer-keyword-ctor-hexdigest", "c2.py", _EP,
  "    ciphertext = encrypt_data(plaintext, aes_key, iv)\n    mac = hmac.new(hmac_key, ciphertext, hashlib.sha256)\n"
  "    return EncryptedPacket(signature=mac.hexdigest()[:16], ciphertext=ciphertext)\n", "C05.R3")

# ================================================================================================ R5: pad / cipher io
T("C05", "twin-pad-split-temporaries", "c2.py", _PAD,
  "    remainder = len(data) % block_size\n    padding = b\"A\" * (block_size - remainder)\n    return data + padding\n")
T("C05", "twin-pad-branches", "c2.py", _PAD,
  "    remainder = len(data) % block_size\n    if remainder == 0:\n        return data + b\"A\" * block_size\n"
  "    missing = block_size - remainder\n    return data + b\"A\" * missing\n")
T("C05", "twin-pad-ljust", "c2.py", _PAD,
  "    total = (len(data) // block_size + 1) * block_size\n    return data.ljust(total, b\"A\")\n")
M("C05", "pad-split-temporaries-negated", "c2.py", _PAD,
  "    remainder = -len(data) % block_size\n    padding = b\"A\" * remainder\n    return data + padding\n", "C05.R5")
M("C05", "pad-branches-skip-aligned", "c2.py", _PAD,
  "    remainder = len(data) % block_size\n    if remainder == 0:\n        return data\n"
  "    missing = block_size - remainder\n    return data + b\"A\" * missing\n", "C05.R5")
# equivalent spellings of the pad count decided by stated lemmas (no evaluation of the body): `-n % b or b` (L4), the bit
# mask of a power of two (L6), a shifted floor division (L1, L2); a count with two definitions is undecided, hence silent
T("C05", "twin-pad-negmod-or", "c2.py", _PAD,
  "    to_pad = -len(data) % block_size or block_size\n    return data + b\"A\" * to_pad\n")
T("C05", "twin-pad-bitmask", "c2.py", _PAD,
  "    to_pad = block_size - (len(data) & (block_size - 1))\n    return data + to_pad * b\"A\"\n")
T("C05", "twin-pad-ljust-shifted", "c2.py", _PAD,
  "    total = ((len(data) + block_size) // block_size) * block_size\n    return bytes(data).ljust(total, b\"A\")\n")
T("C05", "twin-pad-count-two-definitions", "c2.py", _PAD,
  "    to_pad = block_size - len(data) % block_size\n    if to_pad == 0:\n        to_pad = block_size\n    return data + b\"A\" * to_pad\n")
M("C05", "pad-one-too-many", "c2.py", _PAD,
  "    to_pad = block_size - len(data) % block_size + 1\n    return data + b\"A\" * to_pad\n", "C05.R5")
M("C05", "pad-residue-of-half-block", "c2.py", _PAD,
  "    to_pad = block_size - len(data) % 8\n    return data + b\"A\" * to_pad\n", "C05.R5")
M("C05", "pad-ljust-default-fill", "c2.py", _PAD,
  "    total = (len(data) // block_size + 1) * block_size\n    return data.ljust(total)\n", "C05.R5")
M("C05", "pad-modmod-no-full-block", "c2.py", _PAD,
  "    to_pad = (block_size - len(data) % block_size) % block_size\n    return data + b\"A\" * to_pad\n", "C05.R5")
T("C05", "twin-data-guards-inverted", "c2.py", _ENC,
  "    if aes_key is not None:\n        cipher = AES.new(aes_key, AES.MODE_CBC, iv=iv)\n        padded = pad(data)\n        return cipher.encrypt(padded)\n"
  "    raise ValueError(\"Cannot encrypt without AES key\")\n",
  edits=[("c2.py", _ENC,
          "    if aes_key is not None:\n        cipher = AES.new(aes_key, AES.MODE_CBC, iv=iv)\n        padded = pad(data)\n        return cipher.encrypt(padded)\n"
          "    raise ValueError(\"Cannot encrypt without AES key\")\n"),
         ("c2.py", _DEC,
          "    if aes_key is not None:\n        cipher = AES.new(aes_key, AES.MODE_CBC, iv)\n        plain = cipher.decrypt(data)\n        return plain\n"
          "    raise ValueError(\"Cannot decrypt without AES key\")\n")])
M("C05", "encrypt-inverted-guard-no-pad", "c2.py", _ENC,
  "    if aes_key is not None:\n        cipher = AES.new(aes_key, AES.MODE_CBC, iv=iv)\n        padded = data\n        return cipher.encrypt(padded)\n"
  "    raise ValueError(\"Cannot encrypt without AES key\")\n", "C05.R5")
M("C05", "decrypt-inverted-guard-strips", "c2.py", _DEC,
  "    if aes_key is not None:\n        cipher = AES.new(aes_key, AES.MODE_CBC, iv)\n        plain = cipher.decrypt(data)\n        return plain.rstrip(b\"A\")\n"
  "    raise ValueError(\"Cannot decrypt without AES key\")\n", "C05.R5")

# ================================================================================================ R6
M("C05", "decrypt-inverted-guard-iv-is-key", "c2.py", _DEC,
  "    if aes_key is not None:\n        cipher = AES.new(aes_key, AES.MODE_CBC, aes_key)\n        return cipher.decrypt(data)\n"
  "    raise ValueError(\"Cannot decrypt without AES key\")\n", "C05.R6")
M("C05", "decrypt-guard-after-cipher", "c2.py", _DEC,
  "    cipher = AES.new(aes_key, AES.MODE_CBC, iv=iv)\n    if aes_key is not None:\n        return cipher.decrypt(data)\n"
  "    raise ValueError(\"Cannot decrypt without AES key\")\n", "C05.R6")
T("C05", "twin-forward-through-temporaries", "c2.py", "    return decrypt_data(packet.ciphertext, aes_key, iv)",
  "    body = packet.ciphertext\n    session_iv = iv\n    return decrypt_data(body, aes_key=aes_key, iv=session_iv)")

# ================================================================================================ R1
_DP_FLAT = (
    "    if not verify:\n        return decrypt_data(packet.ciphertext, aes_key, iv)\n"
    "    if hmac_key:\n{guard}        return decrypt_data(packet.ciphertext, aes_key, iv)\n"
    "    raise {exc}(\"Cannot verify signature without hmac_key.\")\n"
)
T("C05", "twin-decrypt-packet-flat", "c2.py", _DP, _DP_FLAT.format(guard="        packet.raise_for_signature(hmac_key)\n", exc="ValueError"))
T("C05", "twin-decrypt-packet-flag", "c2.py", _DP,
  "    must_verify = bool(verify)\n    if must_verify and not hmac_key:\n        raise ValueError(\"Cannot verify signature without hmac_key.\")\n"
  "    if must_verify:\n        packet.raise_for_signature(hmac_key=hmac_key)\n    ciphertext = packet.ciphertext\n    return decrypt_data(data=ciphertext, aes_key=aes_key, iv=iv)\n")
M("C05", "decrypt-packet-flat-no-check", "c2.py", _DP, _DP_FLAT.format(guard="", exc="ValueError"), "C05.R1")
M("C05", "decrypt-packet-flat-keyerror", "c2.py", _DP, _DP_FLAT.format(guard="        packet.raise_for_signature(hmac_key)\n", exc="KeyError"), "C05.R1")
M("C05", "decrypt-packet-flag-or", "c2.py", _DP,
  "    must_verify = bool(verify)\n    if must_verify and not hmac_key:\n        raise ValueError(\"Cannot verify signature without hmac_key.\")\n"
  "    if must_verify and len(packet.signature) == 16:\n        packet.raise_for_signature(hmac_key=hmac_key)\n"
  "    ciphertext = packet.ciphertext\n    return decrypt_data(data=ciphertext, aes_key=aes_key, iv=iv)\n", "C05.R1")

# ================================================================================================ R4 / R7: readers
T("C05", "twin-server-nested-keyword-ctor", "c2.py", _SERVER,
  "        data = self.output\n        if data:\n            stream = io.BytesIO(data)\n            body_size = len(data) - 16\n"
  "            yield EncryptedPacket(ciphertext=stream.read(body_size), signature=stream.read(16))\n")
M("C05", "server-keyword-ctor-signature-first", "c2.py", _SERVER,
  "        data = self.output\n        if data:\n            stream = io.BytesIO(data)\n            body_size = len(data) - 16\n"
  "            yield EncryptedPacket(signature=stream.read(16), ciphertext=stream.read(body_size))\n", "C05.R7")
M("C05", "server-body-size-off", "c2.py", _SERVER,
  "        data = self.output\n        if data:\n            stream = io.BytesIO(data)\n            body_size = len(data) - 20\n"
  "            yield EncryptedPacket(ciphertext=stream.read(body_size), signature=stream.read(16))\n", "C05.R4")
# the two slicing twins agree with the stream-reading code on every well-formed stream (frames of at least 16 bytes), which is
# what the property quantifies over; they are the correct counterparts of the seeded stale-length change
T("C05", "twin-server-slices", "c2.py", _SERVER,
  "        data = self.output\n        if not data:\n            return\n        yield EncryptedPacket(data[:-16], data[-16:])\n")
M("C05", "server-slices-short-signature", "c2.py", _SERVER,
  "        data = self.output\n        if not data:\n            return\n        yield EncryptedPacket(data[:-16], data[-8:])\n", "C05.R4")

_CLIENT_ONE = (
    "        data = self.output\n        if not data:\n            return\n        stream = io.BytesIO(data)\n"
    "        end = stream.seek(0, io.SEEK_END)\n{rewind}        while stream.tell() {op} end:\n"
    "            size = c2struct.uint32(stream)\n{mid}            ciphertext = stream.read(size - 16)\n            signature = stream.read(16)\n"
    "            yield EncryptedPacket(ciphertext, signature)\n"
)
T("C05", "twin-client-one-stream", "c2.py", _CLIENT, _CLIENT_ONE.format(rewind="        stream.seek(0)\n", op="<", mid=""))
T("C05", "twin-client-one-stream-len", "c2.py", _CLIENT,
  "        data = self.output or b\"\"\n        stream = io.BytesIO(data)\n        total = len(data)\n        while total > stream.tell():\n"
  "            header = stream.read(4)\n            size = int.from_bytes(header, \"big\")\n            body = size - 16\n"
  "            yield EncryptedPacket(stream.read(body), stream.read(16))\n")
M("C05", "client-one-stream-lte", "c2.py", _CLIENT, _CLIENT_ONE.format(rewind="        stream.seek(0)\n", op="<=", mid=""), "C05.R7")
M("C05", "client-one-stream-not-rewound", "c2.py", _CLIENT, _CLIENT_ONE.format(rewind="", op="<", mid=""), "C05.R7")
M("C05", "client-one-stream-skips", "c2.py", _CLIENT, _CLIENT_ONE.format(rewind="        stream.seek(0)\n", op="<", mid="            stream.read(4)\n"), "C05.R7")
M("C05", "client-one-stream-little-endian", "c2.py", _CLIENT,
  "        data = self.output or b\"\"\n        stream = io.BytesIO(data)\n        total = len(data)\n        while total > stream.tell():\n"
  "            header = stream.read(4)\n            size = int.from_bytes(header, \"little\")\n            body = size - 16\n"
  "            yield EncryptedPacket(stream.read(body), stream.read(16))\n", "C05.R7")
T("C05", "twin-client-rewrap-renamed", "c2.py", _CLIENT,
  "        remaining = self.output\n        while remaining:\n            fh = io.BytesIO(remaining)\n"
  "            frame_len = c2struct.uint32(fh)\n            body = fh.read(frame_len - 16)\n            sig = fh.read(16)\n"
  "            remaining = fh.read()\n            yield EncryptedPacket(signature=sig, ciphertext=body)\n")

_CLIENT_VIEW = (
    "        data = self.output or b\"\"\n        view = memoryview(data)\n        while view:\n            size = u32be({src})\n"
    "            packet, view = view[4 : 4 + size], view[{adv} :]\n            yield EncryptedPacket(bytes(packet[:-16]), bytes(packet[-16:]))\n"
)
T("C05", "twin-client-memoryview", "c2.py", _CLIENT, _CLIENT_VIEW.format(src="view", adv="4 + size"),
  edits=[_IMPORT, ("c2.py", _CLIENT, _CLIENT_VIEW.format(src="view", adv="4 + size"))])
M("C05", "client-memoryview-stale-size", "c2.py", _CLIENT, _CLIENT_VIEW.format(src="data", adv="4 + size"), "C05.R7",
  edits=[_IMPORT, ("c2.py", _CLIENT, _CLIENT_VIEW.format(src="data", adv="4 + size"))])
M("C05", "client-memoryview-advance-without-header", "c2.py", _CLIENT, _CLIENT_VIEW.format(src="view", adv="size"), "C05.R7",
  edits=[_IMPORT, ("c2.py", _CLIENT, _CLIENT_VIEW.format(src="view", adv="size"))])

# ================================================================================================ R7: writer
T("C05", "twin-dumps-to-bytes", "c2.py", _DUMPS,
  "        payload = self.ciphertext + self.signature\n        size_header = len(payload).to_bytes(4, byteorder=\"big\", signed=False)\n"
  "        return size_header + payload\n")
T("C05", "twin-dumps-sum-of-lengths", "c2.py", _DUMPS,
  "        size = len(self.ciphertext) + len(self.signature)\n        return p32be(size) + self.ciphertext + self.signature\n")
M("C05", "dumps-to-bytes-little", "c2.py", _DUMPS,
  "        payload = self.ciphertext + self.signature\n        size_header = len(payload).to_bytes(4, byteorder=\"little\", signed=False)\n"
  "        return size_header + payload\n", "C05.R7")
M("C05", "dumps-counts-ciphertext-only", "c2.py", _DUMPS,
  "        size = len(self.ciphertext)\n        return p32be(size) + self.ciphertext + self.signature\n", "C05.R7")
M("C05", "dumps-signature-first", "c2.py", _DUMPS,
  "        payload = self.signature + self.ciphertext\n        size_header = len(payload).to_bytes(4, byteorder=\"big\", signed=False)\n"
  "        return size_header + payload\n", "C05.R7")

# ================================================================================================ R8
T("C05", "twin-recover-explicit-keys", "c2.py", _CALL,
  "decrypt_packet(enc_packet, aes_key=keys.aes_key, hmac_key=keys.hmac_key, iv=keys.iv, verify=self.verify_hmac)")
M("C05", "recover-explicit-keys-default-iv", "c2.py", _CALL,
  "decrypt_packet(enc_packet, aes_key=keys.aes_key, hmac_key=keys.hmac_key, verify=self.verify_hmac)", "C05.R8")
M("C05", "recover-verify-off", "c2.py", _CALL,
  "decrypt_packet(enc_packet, verify=False, **keys._asdict())", "C05.R8")

# ================================================================================================ R4 / R7: offset walk
# the client reader walks ONE buffer by an offset instead of re-wrapping / cutting down the remainder; the loop must run
# while a complete frame is left (the smallest frame is 4 + 16 + 16 = 36 bytes: a plaintext of 0..15 bytes)
_CLIENT_WALK = (
    "        data = self.output or b\"\"\n        min_frame = 4 + AES.block_size + 16\n        offset = {start}\n"
    "        while {test}:\n            size = u32be({hdr})\n            offset += 4\n"
    "            ciphertext = data[offset : offset + size - 16]\n            signature = data[offset + size - 16 : offset + size{cut}]\n"
    "            offset += size\n            yield EncryptedPacket(ciphertext, signature)\n"
)


def _walk(id_, expect=None, **kw):
    a = dict(start="0", test="len(data) - offset >= min_frame", hdr="data[offset : offset + 4]", cut="")
    a.update(kw)
    new = _CLIENT_WALK.format(**a)
    if expect is None:
        T("C05", id_, "c2.py", _CLIENT, new, edits=[_IMPORT, ("c2.py", _CLIENT, new)])
    else:
        M("C05", id_, "c2.py", _CLIENT, new, expect, edits=[_IMPORT, ("c2.py", _CLIENT, new)])


_walk("twin-client-offset-walk")
_walk("twin-client-offset-walk-lt-len", test="offset < len(data)")
_walk("twin-client-offset-walk-header-fits", test="offset + 4 <= len(data)")
_walk("twin-client-offset-walk-rest-truthy", test="data[offset:]")
_walk("client-offset-walk-mirrored-strict", "C05.R7", test="offset + min_frame < len(data)")
_walk("client-offset-walk-not-equal-min", "C05.R7", test="len(data) - offset != 36 and offset < len(data)")
_walk("client-offset-walk-runs-on-empty", "C05.R7", test="offset <= len(data)")
_walk("client-offset-walk-stale-header", "C05.R7", hdr="data[:4]")
_walk("client-offset-walk-skips-first-bytes", "C05.R7", start="4")
_walk("client-offset-walk-short-signature", "C05.R4", cut=" - 8")

_CLIENT_WALK_FRAME = (
    "        data = self.output or b\"\"\n        total = len(data)\n        offset = 0\n        while True:\n"
    "            if {guard}:\n                break\n            size = int.from_bytes(data[offset : offset + 4], \"{order}\")\n"
    "            frame = data[offset + 4 : offset + 4 + size]\n            offset += {adv}\n"
    "            yield EncryptedPacket(frame[:-16], frame[-16:])\n"
)
T("C05", "twin-client-offset-walk-frame-guard", "c2.py", _CLIENT, _CLIENT_WALK_FRAME.format(guard="offset >= total", order="big", adv="4 + size"))
T("C05", "twin-client-offset-walk-frame-guard-min", "c2.py", _CLIENT, _CLIENT_WALK_FRAME.format(guard="total - offset < 36", order="big", adv="4 + size"))
M("C05", "client-offset-walk-guard-drops-minimal-frame", "c2.py", _CLIENT,
  _CLIENT_WALK_FRAME.format(guard="total - offset <= 36", order="big", adv="4 + size"), "C05.R7")
M("C05", "client-offset-walk-frame-advance-without-header", "c2.py", _CLIENT,
  _CLIENT_WALK_FRAME.format(guard="offset >= total", order="big", adv="size"), "C05.R7")
M("C05", "client-offset-walk-frame-little-endian", "c2.py", _CLIENT,
  _CLIENT_WALK_FRAME.format(guard="offset >= total", order="little", adv="4 + size"), "C05.R7")

# the same necessary condition on the other loop shapes: remainder re-wrapped in a BytesIO (A), one stream walked by
# tell() (B), a memoryview cut down each round (C)
_CLIENT_REWRAP = _CLIENT.replace("        while data:\n", "        while {test}:\n")
T("C05", "twin-client-rewrap-len-at-least-min", "c2.py", _CLIENT, _CLIENT_REWRAP.format(test="len(data) >= 36"))
T("C05", "twin-client-rewrap-len-positive", "c2.py", _CLIENT, _CLIENT_REWRAP.format(test="len(data) > 0"))
M("C05", "client-rewrap-len-above-min", "c2.py", _CLIENT, _CLIENT_REWRAP.format(test="len(data) > 36"), "C05.R7")
M("C05", "client-rewrap-leading-guard-drops-minimal-frame", "c2.py", _CLIENT,
  _CLIENT.replace("            fobj = io.BytesIO(data)\n", "            if len(data) < 40:\n                break\n            fobj = io.BytesIO(data)\n"), "C05.R7")
T("C05", "twin-client-one-stream-room-for-header", "c2.py", _CLIENT,
  _CLIENT_ONE.format(rewind="        stream.seek(0)\n", op="+ 4 <=", mid=""))
M("C05", "client-one-stream-room-for-more-than-min", "c2.py", _CLIENT,
  _CLIENT_ONE.format(rewind="        stream.seek(0)\n", op="+ 36 <", mid=""), "C05.R7")
_CLIENT_VIEW_LEN = _CLIENT_VIEW.replace("        while view:\n", "        while len(view) {test}:\n")
T("C05", "twin-client-memoryview-len-test", "c2.py", _CLIENT, _CLIENT_VIEW_LEN.format(src="view", adv="4 + size", test=">= 4 + 16 + 16"),
  edits=[_IMPORT, ("c2.py", _CLIENT, _CLIENT_VIEW_LEN.format(src="view", adv="4 + size", test=">= 4 + 16 + 16"))])
M("C05", "client-memoryview-len-above-min", "c2.py", _CLIENT, _CLIENT_VIEW_LEN.format(src="view", adv="4 + size", test="> 4 + 16 + 16"), "C05.R7",
  edits=[_IMPORT, ("c2.py", _CLIENT, _CLIENT_VIEW_LEN.format(src="view", adv="4 + size", test="> 4 + 16 + 16"))])

# ================================================================================================ R9: packet bytes are the framed bytes
# ciphertext and signature are binary: between `output` and the EncryptedPacket fields the bytes may only be selected by
# position (slices, stream reads) or copied / viewed; a step whose result depends on the byte values (strip family,
# replace, split ...) moves or rewrites the frame for some streams.  Seeded kind: rstrip(b"\r\n") on the task blob.
_SERVER_SRC = (
    "        data = {src}\n        if not data:\n            return\n        fobj = io.BytesIO({wrap})\n"
    "        ciphertext = fobj.read(len(data) - 16)\n        signature = fobj.read(16)\n        yield EncryptedPacket(ciphertext, signature)\n"
)
T("C05", "twin-server-or-empty-copy", "c2.py", _SERVER, _SERVER_SRC.format(src="bytes(self.output or b\"\")", wrap="data"))
T("C05", "twin-server-conditional-default", "c2.py", _SERVER,
  "        raw = self.output\n" + _SERVER_SRC.format(src="raw if raw is not None else b\"\"", wrap="memoryview(data)"))
T("C05", "twin-server-strip-nothing", "c2.py", _SERVER, _SERVER_SRC.format(src="(self.output or b\"\").rstrip(b\"\")", wrap="data"))
M("C05", "server-trailing-nul-trimmed", "c2.py", _SERVER, _SERVER_SRC.format(src="bytes(self.output or b\"\").rstrip(b\"\\x00\")", wrap="data"), "C05.R9")
M("C05", "server-crlf-normalised-stream", "c2.py", _SERVER, _SERVER_SRC.format(src="self.output", wrap="data.replace(b\"\\r\\n\", b\"\\n\")"), "C05.R9")
M("C05", "server-slices-signature-stripped", "c2.py", _SERVER,
  "        data = self.output\n        if not data:\n            return\n        yield EncryptedPacket(data[:-16], data[-16:].strip())\n", "C05.R9")
M("C05", "server-slices-first-line-only", "c2.py", _SERVER,
  "        data = self.output\n        if not data:\n            return\n        body = data.partition(b\"\\r\\n\\r\\n\")[0]\n"
  "        yield EncryptedPacket(body[:-16], body[-16:])\n", "C05.R9")
M("C05", "client-stream-leading-whitespace-stripped", "c2.py", _CLIENT,
  _CLIENT.replace("        data = self.output\n", "        data = (self.output or b\"\").lstrip()\n"), "C05.R9")
M("C05", "client-remainder-stripped-each-round", "c2.py", _CLIENT,
  _CLIENT.replace("            data = fobj.read()\n", "            data = fobj.read().strip(b\"\\r\\n\")\n"), "C05.R9")
_walk("twin-client-offset-walk-bytes-copy", test="offset < len(data)", hdr="bytes(data[offset : offset + 4])")
M("C05", "client-offset-walk-buffer-stripped", "c2.py", _CLIENT,
  _CLIENT_WALK.format(start="0", test="len(data) - offset >= min_frame", hdr="data[offset : offset + 4]", cut="").replace(
      "        data = self.output or b\"\"\n", "        data = (self.output or b\"\").rstrip()\n"), "C05.R9",
  edits=[_IMPORT, ("c2.py", _CLIENT,
                   _CLIENT_WALK.format(start="0", test="len(data) - offset >= min_frame", hdr="data[offset : offset + 4]", cut="").replace(
                       "        data = self.output or b\"\"\n", "        data = (self.output or b\"\").rstrip()\n"))])


# ================================================================================================ R7: a complete packet is not dropped
# The conditions in front of the packet of a framing reader (branch edges that dominate its construction / its yield,
# conditional expressions around it), read as predicates of the size of the task blob / of the decoded frame length, must hold
# for every size >= 32 = one AES block + 16-byte signature (a plaintext of 0..15 bytes).  Seeded kind: minimum-size guard
# `len(data) - 16 <= AES.block_size` (off by one) in the server reader.  The twins are guards that only turn away blobs /
# frames that cannot hold a packet (malformed input, which the property does not talk about).
_S_HEAD = "        data = self.output\n        if not data:\n            return\n"
_S_READ = (
    "        fobj = io.BytesIO(data)\n        ciphertext = fobj.read(len(data) - 16)\n        signature = fobj.read(16)\n"
    "        yield EncryptedPacket(ciphertext, signature)\n"
)
T("C05", "twin-server-min-size-guard-one-block", "c2.py", _SERVER,
  _S_HEAD + "        body_size = len(data) - 16\n        if body_size < AES.block_size:\n            return\n" + _S_READ)
T("C05", "twin-server-min-size-guard-raises", "c2.py", _SERVER,
  _S_HEAD + "        if 32 > len(data):\n            raise ValueError(\"task data too short\")\n" + _S_READ)
T("C05", "twin-server-nested-size-test-slices", "c2.py", _SERVER,
  "        data = self.output\n        if data is not None and len(data) >= 2 * 16:\n            yield EncryptedPacket(data[:-16], data[-16:])\n")
T("C05", "twin-server-conditional-expression", "c2.py", _SERVER,
  _S_HEAD + "        yield from ([] if len(data) < 32 else [EncryptedPacket(data[:-16], data[-16:])])\n")
T("C05", "twin-server-guard-after-default", "c2.py", _SERVER,
  "        data = self.output\n        if data is None:\n            data = b\"\"\n        if len(data) <= 16:\n            return\n" + _S_READ)
T("C05", "twin-server-single-pass-loop", "c2.py", _SERVER,
  "        data = self.output\n        while data:\n            fobj = io.BytesIO(data)\n            size = len(data)\n"
  "            ciphertext = fobj.read(size - 16)\n            signature = fobj.read(16)\n            data = fobj.read()\n"
  "            yield EncryptedPacket(ciphertext, signature)\n")
M("C05", "server-min-size-guard-two-blocks", "c2.py", _SERVER,
  _S_HEAD + "        if len(data) < 48:\n            raise ValueError(\"task data too short\")\n" + _S_READ, "C05.R7")
M("C05", "server-nested-size-test-strict", "c2.py", _SERVER,
  "        data = self.output\n        if data:\n            if len(data) > 2 * 16:\n                yield EncryptedPacket(data[:-16], data[-16:])\n", "C05.R7")
M("C05", "server-yield-guarded-by-body-size", "c2.py", _SERVER,
  _S_HEAD + "        fobj = io.BytesIO(data)\n        ciphertext = fobj.read(len(data) - 16)\n        signature = fobj.read(16)\n"
  "        packet = EncryptedPacket(ciphertext, signature)\n        if len(data) - 16 > 16:\n            yield packet\n", "C05.R7")
M("C05", "server-conditional-expression-strict", "c2.py", _SERVER,
  _S_HEAD + "        yield from ([EncryptedPacket(data[:-16], data[-16:])] if len(data) > 32 else [])\n", "C05.R7")
M("C05", "server-one-block-blob-ignored", "c2.py", _SERVER,
  _S_HEAD + "        if len(data) == 2 * AES.block_size:\n            return\n" + _S_READ, "C05.R7")
_C_READ = "            ciphertext = fobj.read(size - 16)\n"
T("C05", "twin-client-frame-min-size-guard", "c2.py", _CLIENT,
  _CLIENT.replace(_C_READ, "            if size < 2 * AES.block_size:\n                break\n" + _C_READ))
M("C05", "client-one-block-frame-ends-loop", "c2.py", _CLIENT,
  _CLIENT.replace(_C_READ, "            if size <= 32:\n                break\n" + _C_READ), "C05.R7")
M("C05", "client-one-block-frame-not-yielded", "c2.py", _CLIENT,
  _CLIENT.replace("            yield EncryptedPacket(ciphertext, signature)\n",
                  "            if size - 16 > 16:\n                yield EncryptedPacket(ciphertext, signature)\n"), "C05.R7")

# ================================================================================================ R6: guard moved into a decorator
_ENC_DEF = "def encrypt_data(data: bytes, aes_key: bytes, iv: bytes) -> bytes:\n"
_DEC_DEF = "def decrypt_data(data: bytes, aes_key: bytes, iv: bytes) -> bytes:\n"
_ENC_BARE = "    cipher = AES.new(aes_key, AES.MODE_CBC, iv=iv)\n    return cipher.encrypt(pad(data))\n"
_DEC_BARE = "    cipher = AES.new(aes_key, AES.MODE_CBC, iv=iv)\n    return cipher.decrypt(data)\n"
_FUNCTOOLS = ("c2.py", "import hashlib\n", "import functools\nimport hashlib\n")
_DECO = (
    "def _needs_key(func):\n"
    "    @functools.wraps(func)\n"
    "    def checked(data, aes_key, iv):\n"
    "        if {test}:\n"
    "            raise {exc}(\"Cannot use AES without AES key\")\n"
    "        return func({args})\n\n"
    "    return checked\n\n\n"
)


def _deco_edits(test="aes_key is None", exc="ValueError", args="data, aes_key, iv", on_decrypt=True, deco=None):
    d = deco if deco is not None else _DECO.format(test=test, exc=exc, args=args)
    return [_FUNCTOOLS,
            ("c2.py", _ENC_DEF, d + "@_needs_key\n" + _ENC_DEF),
            ("c2.py", _DEC_DEF, ("@_needs_key\n" if on_decrypt else "") + _DEC_DEF),
            ("c2.py", _ENC, _ENC_BARE), ("c2.py", _DEC, _DEC_BARE)]


T("C05", "twin-key-guard-plain-decorator", "c2.py", _ENC, _ENC_BARE, edits=_deco_edits())
T("C05", "twin-key-guard-decorator-keywords-inverted", "c2.py", _ENC, _ENC_BARE, edits=_deco_edits(deco=(
    "def _needs_key(func):\n"
    "    def checked(data, aes_key, iv):\n"
    "        if aes_key is not None:\n"
    "            return func(data=data, iv=iv, aes_key=aes_key)\n"
    "        raise ValueError(\"Cannot use AES without AES key\")\n\n"
    "    return functools.update_wrapper(checked, func)\n\n\n")))
# a wrapper that cannot see the key (star arguments) is not understood: undecided, never an alarm ... but it does not guard either;
# here the body keeps its guard, so the obligation is discharged in the body
T("C05", "twin-logging-decorator-body-keeps-guard", "c2.py", _ENC_DEF,
  "def _traced(func):\n    @functools.wraps(func)\n    def inner(*args, **kwargs):\n        logger.debug(\"%s\", func.__name__)\n"
  "        return func(*args, **kwargs)\n\n    return inner\n\n\n@_traced\n" + _ENC_DEF,
  edits=[_FUNCTOOLS, ("c2.py", _ENC_DEF,
         "def _traced(func):\n    @functools.wraps(func)\n    def inner(*args, **kwargs):\n        logger.debug(\"%s\", func.__name__)\n"
         "        return func(*args, **kwargs)\n\n    return inner\n\n\n@_traced\n" + _ENC_DEF)])
M("C05", "key-guard-decorator-tests-iv", "c2.py", _ENC, _ENC_BARE, "C05.R6", edits=_deco_edits(test="iv is None"))
M("C05", "key-guard-decorator-keyerror", "c2.py", _ENC, _ENC_BARE, "C05.R6", edits=_deco_edits(exc="KeyError"))
M("C05", "key-guard-decorator-swaps-key-and-iv", "c2.py", _ENC, _ENC_BARE, "C05.R6", edits=_deco_edits(args="data, iv, aes_key"))
M("C05", "key-guard-decorator-not-on-decrypt", "c2.py", _ENC, _ENC_BARE, "C05.R6", edits=_deco_edits(on_decrypt=False))

# ================================================================================================ R10: one CBC chain per message
_CHUNKED = (
    "    if aes_key is None:\n        raise ValueError(\"Cannot decrypt without AES key\")\n"
    "{before}    plain = b\"\"\n    pos = 0\n    while pos < len(data):\n{inside}"
    "        plain += cipher.decrypt(data[pos : pos + 32768])\n        pos += 32768\n    return plain\n"
)
_NEW = "cipher = AES.new(aes_key, AES.MODE_CBC, iv=iv)\n"
T("C05", "twin-decrypt-chunked-one-cipher", "c2.py", _DEC, _CHUNKED.format(before="    " + _NEW, inside=""))
M("C05", "decrypt-chunked-cipher-per-chunk", "c2.py", _DEC, _CHUNKED.format(before="", inside="        " + _NEW), "C05.R10")
_ENC_JOIN = (
    "    if aes_key is None:\n        raise ValueError(\"Cannot encrypt without AES key\")\n"
    "    padded = pad(data)\n{before}"
    "    return b\"\".join({ciph}.encrypt(padded[i : i + 4096]) for i in range(0, len(padded), 4096))\n"
)
T("C05", "twin-encrypt-chunked-one-cipher", "c2.py", _ENC, _ENC_JOIN.format(before="    " + _NEW, ciph="cipher"))
M("C05", "encrypt-chunked-cipher-per-chunk", "c2.py", _ENC,
  _ENC_JOIN.format(before="", ciph="AES.new(aes_key, AES.MODE_CBC, iv=iv)"), "C05.R10")
M("C05", "encrypt-blockwise-fresh-cipher", "c2.py", _ENC,
  "    if aes_key is None:\n        raise ValueError(\"Cannot encrypt without AES key\")\n"
  "    out = bytearray()\n    padded = pad(data)\n    for block in (padded[i : i + 16] for i in range(0, len(padded), 16)):\n"
  "        out += AES.new(aes_key, AES.MODE_CBC, iv=iv).encrypt(block)\n    return bytes(out)\n", "C05.R10")
M("C05", "key-guard-dropped-behind-logging-decorator", "c2.py", _ENC, _ENC_BARE, "C05.R6",
  edits=[_FUNCTOOLS, ("c2.py", _ENC_DEF,
         "def _traced(func):\n    @functools.wraps(func)\n    def inner(*args, **kwargs):\n        logger.debug(\"%s\", func.__name__)\n"
         "        return func(*args, **kwargs)\n\n    return inner\n\n\n@_traced\n" + _ENC_DEF), ("c2.py", _ENC, _ENC_BARE)])
# hand-made chaining (a fresh cipher per piece whose IV is the last ciphertext block of the previous piece) is a correct single
# chain: not understood by R6 / R10 -> undecided, never an alarm; with the constant IV per piece it is the seeded defect
_HANDMADE = (
    "    if aes_key is None:\n        raise ValueError(\"Cannot decrypt without AES key\")\n"
    "    plain = bytearray()\n    chain = iv\n    for pos in range(0, len(data), 32768):\n        piece = data[pos : pos + 32768]\n"
    "        plain += AES.new(aes_key, AES.MODE_CBC, iv={ivarg}).decrypt(piece)\n        chain = piece[-16:]\n    return bytes(plain)\n"
)
T("C05", "twin-decrypt-handmade-chaining", "c2.py", _DEC, _HANDMADE.format(ivarg="chain"))
M("C05", "decrypt-handmade-chaining-not-used", "c2.py", _DEC, _HANDMADE.format(ivarg="iv"), "C05.R10")
