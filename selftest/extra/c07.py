"""Additional C07 corpus entries: behaviour-preserving refactorings (twins) the rules must stay silent on, and breaking
variants of the *refactored* shapes (mutants) the rules must still report."""

from selftest.corpus import M, T

C2 = "c2.py"
CL = "client.py"

# ------------------------------------------------------------------------------------------------ source anchors
_ROUTER = (
    "        http = parse_raw_http(http) if isinstance(http, bytes) else http\n"
    "\n"
    "        if isinstance(http, HttpRequest):\n"
    "            if http.method == self.get_verb and http.uri.startswith(self.get_uris):\n"
    "                return self.transform_get\n"
    "            elif http.method == self.submit_verb and http.uri.startswith(self.submit_uri):\n"
    "                return self.transform_submit\n"
    "        elif isinstance(http, HttpResponse):\n"
    "            return self.transform_response\n"
    "        raise ValueError(f\"Possible unrelated HTTP Request or Response, cannot find correct transform for {http!r}\")\n"
)
_RAISE = "        raise ValueError(f\"Possible unrelated HTTP Request or Response, cannot find correct transform for {http!r}\")\n"

_SETTINGS = (
    "        self.submit_uri: bytes = bconfig.settings[\"SETTING_SUBMITURI\"].encode()\n"
    "        self.submit_verb: bytes = bconfig.settings[\"SETTING_C2_VERB_POST\"].encode()\n"
    "        self.get_uris: Tuple[bytes, ...] = tuple(uri.encode() for uri in bconfig.uris)\n"
    "        self.get_verb: bytes = bconfig.settings[\"SETTING_C2_VERB_GET\"].encode()\n"
)
_TRANSFORMS = (
    "        self.transform_submit = HttpDataTransform(steps=bconfig.settings[\"SETTING_C2_POSTREQ\"])\n"
    "        self.transform_get = HttpDataTransform(steps=bconfig.settings[\"SETTING_C2_REQUEST\"])\n"
    "        self.transform_response = HttpDataTransform(\n"
    "            steps=bconfig.settings[\"SETTING_C2_RECOVER\"], reverse=True, build=\"output\"\n"
    "        )\n"
)
_KEYS = (
    "        if aes_rand and aes_key:\n"
    "            raise ValueError(\"Cannot specify both aes_rand and aes_key.\")\n"
    "        if not any([aes_key, aes_rand, rsa_private_key]):\n"
    "            raise ValueError(\"One of the following arguments is required: aes_key, aes_rand, rsa_private_key\")\n"
    "\n"
    "        self.aes_key = aes_key\n"
    "        self.hmac_key = hmac_key\n"
    "        self.verify_hmac = verify_hmac\n"
    "\n"
    "        if aes_rand:\n"
    "            self.aes_key, self.hmac_key = derive_aes_hmac_keys(aes_rand)\n"
    "\n"
    "        if self.aes_key is not None and len(self.aes_key) != 16:\n"
    "            raise ValueError(f\"AES key must be 16 bytes, got: {self.aes_key!r}\")\n"
    "\n"
    "        if self.hmac_key is not None and len(self.hmac_key) != 16:\n"
    "            raise ValueError(f\"HMAC key must be 16 bytes, got: {self.hmac_key!r}\")\n"
)
_AES_LEN = (
    "        if self.aes_key is not None and len(self.aes_key) != 16:\n"
    "            raise ValueError(f\"AES key must be 16 bytes, got: {self.aes_key!r}\")\n"
)
_HMAC_LEN = (
    "        if self.hmac_key is not None and len(self.hmac_key) != 16:\n"
    "            raise ValueError(f\"HMAC key must be 16 bytes, got: {self.hmac_key!r}\")\n"
)
_BKEYS = "        self.beacon_keys = BeaconKeys(aes_key=self.aes_key, hmac_key=self.hmac_key)\n"

_DEC_HEAD = (
    "        transform = self.get_transform_for_http(http)\n"
    "        c2data = transform.recover(http)\n"
)
_DEC_META = (
    "        if c2data.metadata and self.priv:\n"
    "            metadata = self.metadata_cache.get(c2data.metadata)\n"
    "            if metadata is None:\n"
    "                metadata = decrypt_metadata(c2data.metadata, self.priv)\n"
)
_DEC_LOOP = (
    "        for enc_packet in c2data.iter_encrypted_packets():\n"
    "            plaintext = decrypt_packet(enc_packet, verify=self.verify_hmac, **keys._asdict())\n"
    "            if isinstance(c2data, ClientC2Data):\n"
    "                yield CallbackPacket(plaintext)\n"
    "            elif isinstance(c2data, ServerC2Data):\n"
    "                yield TaskPacket(plaintext)\n"
)

_GET = (
    "        req = self.c2http.transform_get.transform(\n"
    "            C2Data(metadata=encrypt_metadata(self.metadata, public_key=self.c2http.pub)),\n"
    "            request=self._initial_get_request(),\n"
    "        )\n"
)
_POST = (
    "        enc_packet = encrypt_packet(packet.dumps(), **self.c2http.beacon_keys._asdict())\n"
    "\n"
    "        # Transform data into a HTTP request\n"
    "        req = self.c2http.transform_submit.transform(\n"
    "            ClientC2Data(\n"
    "                id=str(self.beacon_id).encode(),\n"
    "                output=enc_packet.dumps(),\n"
    "            ),\n"
    "            request=self._initial_post_request(),\n"
    "        )\n"
)
_ENC = "        enc_packet = encrypt_packet(packet.dumps(), **self.c2http.beacon_keys._asdict())\n"
_RUN_C2 = "        self.c2http = C2Http(bconfig, aes_key=self.aes_key, hmac_key=self.hmac_key)\n"
_RUN_GETVERB = "        self.get_verb: bytes = self.c2http.get_verb\n"
_RUN_SUBMIT = (
    "        self.submit_verb: bytes = self.c2http.submit_verb\n"
    "        self.submit_uri: str = self.c2http.submit_uri.decode()\n"
)
_INIT_GET = (
    "        return HttpRequest(\n"
    "            method=self.get_verb,\n"
    "            uri=self.get_uri.encode(),\n"
    "            headers={b\"User-Agent\": self.user_agent.encode(), b\"Host\": self.host_header.encode()},\n"
    "            params={},\n"
    "            body=b\"\",\n"
    "        )\n"
)
_INIT_POST = (
    "        return HttpRequest(\n"
    "            method=self.submit_verb,\n"
    "            uri=self.submit_uri.encode(),\n"
    "            headers={b\"User-Agent\": self.user_agent.encode(), b\"Host\": self.host_header.encode()},\n"
    "            params={},\n"
    "            body=b\"\",\n"
    "        )\n"
)

# =============================================================================================== R1: the router
# the parsed message lives in a new local; attribute reads bound to temporaries; mirrored comparison
_R1_LOCAL = (
    "        message = parse_raw_http(http) if isinstance(http, bytes) else http\n"
    "\n"
    "        if isinstance(message, HttpRequest):\n"
    "            method, uri = message.method, message.uri\n"
    "            if self.get_verb == method and uri.startswith(self.get_uris):\n"
    "                return self.transform_get\n"
    "            elif method == self.submit_verb and {prefix}:\n"
    "                return self.transform_submit\n"
    "        elif isinstance(message, HttpResponse):\n"
    "            return self.transform_response\n"
    "        raise ValueError(f\"Possible unrelated HTTP Request or Response, cannot find correct transform for {{message!r}}\")\n"
)
T("C07", "twin-router-local-message", C2, _ROUTER, _R1_LOCAL.format(prefix="uri.startswith(self.submit_uri)"))
M("C07", "router-local-message-prefix-swapped", C2, _ROUTER, _R1_LOCAL.format(prefix="self.submit_uri.startswith(uri)"), "C07.R1")

# single exit: the selected transform is kept in a local, a final guard rejects the placeholder
_R1_SINGLE = (
    "        if isinstance(http, bytes):\n"
    "            http = parse_raw_http(http)\n"
    "        selected = None\n"
    "        is_request = isinstance(http, HttpRequest)\n"
    "        if is_request and http.method == self.get_verb and http.uri.startswith(self.get_uris):\n"
    "            selected = self.transform_get\n"
    "        elif is_request and http.method == self.submit_verb and http.uri.startswith(self.submit_uri):\n"
    "            selected = self.transform_submit\n"
    "        elif not is_request and isinstance(http, HttpResponse):\n"
    "            selected = self.transform_response\n"
    "{tail}"
)
_R1_SINGLE_OK = (
    "        if selected is None:\n"
    "            raise ValueError(f\"Possible unrelated HTTP Request or Response, cannot find correct transform for {http!r}\")\n"
    "        return selected\n"
)
T("C07", "twin-router-single-exit", C2, _ROUTER, _R1_SINGLE.format(tail=_R1_SINGLE_OK))
M("C07", "router-single-exit-returns-placeholder", C2, _ROUTER, _R1_SINGLE.format(tail="        return selected\n"), "C07.R1")

# conditional expressions select the transform
_R1_TERNARY = (
    "        http = parse_raw_http(http) if isinstance(http, bytes) else http\n"
    "\n"
    "        if isinstance(http, HttpResponse):\n"
    "            return self.transform_response\n"
    "        if isinstance(http, HttpRequest):\n"
    "            is_get = http.method == self.get_verb and http.uri.startswith(self.get_uris)\n"
    "            is_post = {post}\n"
    "            if is_get or is_post:\n"
    "                return self.transform_get if is_get else self.transform_submit\n"
    "        raise ValueError(f\"Possible unrelated HTTP Request or Response, cannot find correct transform for {{http!r}}\")\n"
)
T("C07", "twin-router-conditional-expression", C2, _ROUTER, _R1_TERNARY.format(post="http.method == self.submit_verb and http.uri.startswith(self.submit_uri)"))
# (the facts of the `else` value are `not is_get` and `is_get or is_post`: the rule does not resolve the disjunction)
M("C07", "router-conditional-expression-no-verb", C2, _ROUTER,
  _R1_TERNARY.format(post="http.uri.startswith(self.submit_uri)").replace("            if is_get or is_post:\n                return self.transform_get if is_get else self.transform_submit\n",
                                                                           "            if is_get:\n                return self.transform_get\n            if is_post:\n                return self.transform_submit\n"), "C07.R1")

# De Morgan / negated guards with early raise
_R1_GUARDS = (
    "        http = parse_raw_http(http) if isinstance(http, bytes) else http\n"
    "\n"
    "        if isinstance(http, HttpResponse):\n"
    "            return self.transform_response\n"
    "        if not isinstance(http, HttpRequest):\n"
    "            raise ValueError(f\"Possible unrelated HTTP Request or Response, cannot find correct transform for {http!r}\")\n"
    "        if not (http.method != self.get_verb or not http.uri.startswith(self.get_uris)):\n"
    "            return self.transform_get\n"
    "        if http.method != self.submit_verb or not http.uri.startswith(self.submit_uri):\n"
    "            raise ValueError(f\"Possible unrelated HTTP Request or Response, cannot find correct transform for {http!r}\")\n"
    "        return self.transform_submit\n"
)
T("C07", "twin-router-guard-clauses", C2, _ROUTER, _R1_GUARDS)
M("C07", "router-guard-clauses-and-for-or", C2, _ROUTER, _R1_GUARDS.replace("        if http.method != self.submit_verb or not http.uri", "        if http.method != self.submit_verb and not http.uri"), "C07.R1")

# the exception instance goes through a temporary
T("C07", "twin-router-raise-temporary", C2, _RAISE,
  "        error = ValueError(f\"Possible unrelated HTTP Request or Response, cannot find correct transform for {http!r}\")\n        raise error\n")
M("C07", "router-raise-temporary-typeerror", C2, _RAISE,
  "        error = TypeError(f\"Possible unrelated HTTP Request or Response, cannot find correct transform for {http!r}\")\n        raise error\n", "C07.R1")
# response transform for everything that is not a request (also for objects that are no HTTP message at all)
M("C07", "router-response-for-any-non-request", C2, "        elif isinstance(http, HttpResponse):\n            return self.transform_response\n", "        else:\n            return self.transform_response\n", "C07.R1")
# data-driven routing loop: the rule cannot follow the selection -> undecided, not a violation
T("C07", "twin-router-table-loop", C2,
  "            if http.method == self.get_verb and http.uri.startswith(self.get_uris):\n"
  "                return self.transform_get\n"
  "            elif http.method == self.submit_verb and http.uri.startswith(self.submit_uri):\n"
  "                return self.transform_submit\n",
  "            routes = ((self.get_verb, self.get_uris, self.transform_get), (self.submit_verb, self.submit_uri, self.transform_submit))\n"
  "            for verb, prefix, transform in routes:\n"
  "                if http.method == verb and http.uri.startswith(prefix):\n"
  "                    return transform\n")
# the bytes -> message step shared through a new helper
T("C07", "twin-router-parse-helper", C2, "", "", edits=[
    (C2, "    def get_transform_for_http(self, http: Union[HttpRequest, HttpResponse, bytes]) -> HttpDataTransform:\n",
     "    @staticmethod\n    def _as_message(http):\n        if isinstance(http, bytes):\n            return parse_raw_http(http)\n        return http\n\n"
     "    def get_transform_for_http(self, http: Union[HttpRequest, HttpResponse, bytes]) -> HttpDataTransform:\n"),
    (C2, _ROUTER, _ROUTER.replace("        http = parse_raw_http(http) if isinstance(http, bytes) else http\n", "        http = self._as_message(http)\n")),
])

# =============================================================================================== R2: decoder attributes
_R2_LOCALS = (
    "        settings = bconfig.settings\n"
    "        postreq_steps = settings[\"{post}\"]\n"
    "        self.transform_submit = HttpDataTransform(postreq_steps)\n"
    "        request_steps = settings[\"{get}\"]\n"
    "        self.transform_get = HttpDataTransform(request_steps, False)\n"
    "        recover_steps = settings[\"SETTING_C2_RECOVER\"]\n"
    "        self.transform_response = HttpDataTransform(recover_steps, True, \"output\")\n"
)
T("C07", "twin-transforms-locals-positional", C2, _TRANSFORMS, _R2_LOCALS.format(post="SETTING_C2_POSTREQ", get="SETTING_C2_REQUEST"))
M("C07", "transforms-locals-positional-swapped", C2, _TRANSFORMS, _R2_LOCALS.format(post="SETTING_C2_REQUEST", get="SETTING_C2_POSTREQ"), "C07.R2")
M("C07", "transforms-locals-positional-no-build", C2, _TRANSFORMS, _R2_LOCALS.format(post="SETTING_C2_POSTREQ", get="SETTING_C2_REQUEST").replace("(recover_steps, True, \"output\")", "(recover_steps, True)"), "C07.R2")

_R2_VERBS = (
    "        settings = self.bconfig.settings\n"
    "        submit_uri, post_verb, get_verb = settings[\"SETTING_SUBMITURI\"], settings[\"SETTING_C2_VERB_POST\"], settings[\"SETTING_C2_VERB_GET\"]\n"
    "        self.submit_uri, self.submit_verb = bytes(submit_uri, \"utf-8\"), {post}\n"
    "        uris = bconfig.uris\n"
    "        self.get_uris = {uris}\n"
    "        self.get_verb = str.encode(get_verb)\n"
)
T("C07", "twin-verbs-tuple-assign-codecs", C2, _SETTINGS, _R2_VERBS.format(post="post_verb.encode(\"utf-8\")", uris="tuple([uri.encode() for uri in uris])"))
T("C07", "twin-get-uris-map", C2, _SETTINGS, _R2_VERBS.format(post="post_verb.encode()", uris="tuple(map(str.encode, uris))"))
M("C07", "verbs-tuple-assign-not-encoded", C2, _SETTINGS, _R2_VERBS.format(post="post_verb", uris="tuple([uri.encode() for uri in uris])"), "C07.R2")
M("C07", "verbs-tuple-assign-wrong-setting", C2, _SETTINGS, _R2_VERBS.format(post="get_verb.encode()", uris="tuple([uri.encode() for uri in uris])"), "C07.R2")
M("C07", "get-uris-list", C2, _SETTINGS, _R2_VERBS.format(post="post_verb.encode()", uris="[uri.encode() for uri in uris]"), "C07.R2")
M("C07", "get-uris-not-encoded", C2, _SETTINGS, _R2_VERBS.format(post="post_verb.encode()", uris="tuple(uris)"), "C07.R2")

T("C07", "twin-beacon-keys-positional", C2, _BKEYS, "        self.beacon_keys = BeaconKeys(self.aes_key, self.hmac_key)\n")
M("C07", "beacon-keys-swapped", C2, _BKEYS, "        self.beacon_keys = BeaconKeys(self.hmac_key, self.aes_key)\n", "C07.R2")
M("C07", "beacon-keys-ignore-derived", C2, _BKEYS, "        self.beacon_keys = BeaconKeys(aes_key=aes_key, hmac_key=hmac_key)\n", "C07.R2")

# =============================================================================================== R3: key validation
# the whole validation works on locals, the attributes are stored afterwards
_R3_LOCALS = (
    "        have_material = any([aes_key, aes_rand, rsa_private_key])\n"
    "        if aes_rand and aes_key:\n"
    "            raise ValueError(\"Cannot specify both aes_rand and aes_key.\")\n"
    "        if not have_material:\n"
    "            raise ValueError(\"One of the following arguments is required: aes_key, aes_rand, rsa_private_key\")\n"
    "\n"
    "        if aes_rand:\n"
    "            aes_key, hmac_key = derive_aes_hmac_keys(aes_rand)\n"
    "\n"
    "        if aes_key is not None:\n"
    "            if {aes_test}:\n"
    "                raise ValueError(f\"AES key must be 16 bytes, got: {{aes_key!r}}\")\n"
    "\n"
    "        bad_hmac = hmac_key is not None and 16 != len(hmac_key)\n"
    "        if bad_hmac:\n"
    "            error = ValueError(f\"HMAC key must be 16 bytes, got: {{hmac_key!r}}\")\n"
    "            raise error\n"
    "\n"
    "        self.aes_key = aes_key\n"
    "        self.hmac_key = hmac_key\n"
    "        self.verify_hmac = verify_hmac\n"
)
T("C07", "twin-key-validation-on-locals", C2, "", "", edits=[
    (C2, _KEYS, _R3_LOCALS.format(aes_test="len(aes_key) != 16")),
    (C2, _BKEYS, "        self.beacon_keys = BeaconKeys(aes_key=aes_key, hmac_key=hmac_key)\n"),
])
T("C07", "twin-key-validation-on-locals-attr-keys", C2, _KEYS, _R3_LOCALS.format(aes_test="not len(aes_key) == 16"))
M("C07", "key-validation-on-locals-short-only", C2, "", "", "C07.R3", edits=[
    (C2, _KEYS, _R3_LOCALS.format(aes_test="len(aes_key) < 16")),
    (C2, _BKEYS, "        self.beacon_keys = BeaconKeys(aes_key=aes_key, hmac_key=hmac_key)\n"),
])
M("C07", "key-validation-on-locals-before-derive", C2, "", "", "C07.R3", edits=[
    (C2, _KEYS, _R3_LOCALS.format(aes_test="len(aes_key) != 16").replace(
        "        if aes_rand:\n            aes_key, hmac_key = derive_aes_hmac_keys(aes_rand)\n\n", "").replace(
        "        self.aes_key = aes_key\n", "        if aes_rand:\n            aes_key, hmac_key = derive_aes_hmac_keys(aes_rand)\n        self.aes_key = aes_key\n")),
    (C2, _BKEYS, "        self.beacon_keys = BeaconKeys(aes_key=aes_key, hmac_key=hmac_key)\n"),
])
# inverted: the accepted case is spelled out, the rejection is the else branch
T("C07", "twin-key-length-positive-test", C2, _AES_LEN,
  "        if self.aes_key is None or len(self.aes_key) == 16:\n            pass\n        else:\n            raise ValueError(f\"AES key must be 16 bytes, got: {self.aes_key!r}\")\n")
M("C07", "key-length-truthiness", C2, _HMAC_LEN,
  "        if self.hmac_key and len(self.hmac_key) != 16:\n            raise ValueError(f\"HMAC key must be 16 bytes, got: {self.hmac_key!r}\")\n", "C07.R3")
M("C07", "key-length-logged-only", C2, _AES_LEN,
  "        if self.aes_key is not None and len(self.aes_key) != 16:\n            logger.warning(f\"AES key must be 16 bytes, got: {self.aes_key!r}\")\n", "C07.R3")
T("C07", "twin-no-material-boolean-ops", C2, "        if not any([aes_key, aes_rand, rsa_private_key]):\n", "        if not aes_key and not aes_rand and not rsa_private_key:\n")
M("C07", "no-material-is-none", C2, "        if not any([aes_key, aes_rand, rsa_private_key]):\n", "        if aes_key is None and aes_rand is None and rsa_private_key is None:\n", "C07.R3")

# =============================================================================================== R4: client
_GET_TEMPS = (
    "        c2http = self.c2http\n"
    "        transform = c2http.{attr}\n"
    "        encrypted = encrypt_metadata(public_key=c2http.pub, metadata=self.metadata)\n"
    "        checkin = C2Data(None, {field})\n"
    "        initial = self._initial_get_request()\n"
    "        req = transform.transform(checkin, initial)\n"
)
T("C07", "twin-get-task-temporaries", CL, _GET, _GET_TEMPS.format(attr="transform_get", field="encrypted"))
M("C07", "get-task-temporaries-post-transform", CL, _GET, _GET_TEMPS.format(attr="transform_submit", field="encrypted"), "C07.R4")
M("C07", "get-task-temporaries-metadata-as-id", CL, _GET, _GET_TEMPS.format(attr="transform_get", field="None, encrypted"), "C07.R4")
M("C07", "get-task-no-initial-request", CL, _GET, _GET_TEMPS.format(attr="transform_get", field="encrypted").replace("transform.transform(checkin, initial)", "transform.transform(checkin)"), "C07.R4")

_POST_INLINE = (
    "        keys = self.c2http.beacon_keys\n"
    "        req = self.c2http.transform_submit.transform(\n"
    "            request=self._initial_post_request(),\n"
    "            c2data=ClientC2Data(\n"
    "                output={output},\n"
    "                id={id},\n"
    "            ),\n"
    "        )\n"
)
_OUT_OK = "encrypt_packet(packet.dumps(), aes_key=keys.aes_key, hmac_key=keys.hmac_key, iv=keys.iv).dumps()"
T("C07", "twin-callback-inline-explicit-keys", CL, _POST, _POST_INLINE.format(output=_OUT_OK, id="b\"%d\" % self.beacon_id"))
T("C07", "twin-callback-id-fstring", CL, _POST, _POST_INLINE.format(output=_OUT_OK, id="f\"{self.beacon_id}\".encode(\"ascii\")"))
M("C07", "callback-inline-keys-swapped", CL, _POST, _POST_INLINE.format(output=_OUT_OK.replace("aes_key=keys.aes_key, hmac_key=keys.hmac_key", "aes_key=keys.hmac_key, hmac_key=keys.aes_key"), id="b\"%d\" % self.beacon_id"), "C07.R4")
M("C07", "callback-inline-id-hex-format", CL, _POST, _POST_INLINE.format(output=_OUT_OK, id="b\"%x\" % self.beacon_id"), "C07.R4")
M("C07", "callback-inline-unframed", CL, _POST, _POST_INLINE.format(output=_OUT_OK[:-len(".dumps()")], id="b\"%d\" % self.beacon_id").replace(
    "output=encrypt_packet(", "output=b\"\".join(encrypt_packet(").replace("iv=keys.iv)", "iv=keys.iv))"), "C07.R4")
M("C07", "callback-unframed-fields", CL, "                output=enc_packet.dumps(),\n", "                output=enc_packet.ciphertext + enc_packet.signature,\n", "C07.R4")
M("C07", "callback-inline-unencrypted", CL, _POST, _POST_INLINE.format(output="packet.dumps()", id="b\"%d\" % self.beacon_id"), "C07.R4")
# the client's own (identical) session keys instead of the decoder's copy
T("C07", "twin-callback-own-keys", CL, _ENC, "        enc_packet = encrypt_packet(packet.dumps(), self.aes_key, self.hmac_key)\n")
M("C07", "callback-own-keys-swapped", CL, _ENC, "        enc_packet = encrypt_packet(packet.dumps(), self.hmac_key, self.aes_key)\n", "C07.R4")

# one new helper builds both requests
T("C07", "twin-client-build-helper", CL, "", "", edits=[
    (CL, "    def get_task(self) -> Optional[TaskPacket]:\n",
     "    def _build(self, transform, c2data, initial):\n        return transform.transform(c2data, request=initial)\n\n    def get_task(self) -> Optional[TaskPacket]:\n"),
    (CL, _GET, "        req = self._build(\n            self.c2http.transform_get,\n            C2Data(metadata=encrypt_metadata(self.metadata, public_key=self.c2http.pub)),\n            self._initial_get_request(),\n        )\n"),
    (CL, "        req = self.c2http.transform_submit.transform(\n            ClientC2Data(\n                id=str(self.beacon_id).encode(),\n                output=enc_packet.dumps(),\n            ),\n            request=self._initial_post_request(),\n        )\n",
     "        req = self._build(\n            self.c2http.transform_submit,\n            ClientC2Data(id=str(self.beacon_id).encode(), output=enc_packet.dumps()),\n            self._initial_post_request(),\n        )\n"),
])
# the two initial requests share a new helper
_INIT_HELPER = (
    "    def _initial_request(self, verb: bytes, uri: str) -> HttpRequest:\n"
    "        return HttpRequest(\n"
    "            method=verb,\n"
    "            uri=uri.encode(),\n"
    "            headers={b\"User-Agent\": self.user_agent.encode(), b\"Host\": self.host_header.encode()},\n"
    "            params={},\n"
    "            body=b\"\",\n"
    "        )\n\n"
    "    def _initial_get_request(self) -> HttpRequest:\n"
)
T("C07", "twin-initial-request-helper", CL, "", "", edits=[
    (CL, "    def _initial_get_request(self) -> HttpRequest:\n", _INIT_HELPER),
    (CL, _INIT_GET, "        return self._initial_request(self.get_verb, self.get_uri)\n"),
    (CL, _INIT_POST, "        return self._initial_request(self.submit_verb, self.submit_uri)\n"),
])
M("C07", "initial-request-helper-post-with-get-verb", CL, "", "", "C07.R4", edits=[
    (CL, "    def _initial_get_request(self) -> HttpRequest:\n", _INIT_HELPER),
    (CL, _INIT_GET, "        return self._initial_request(self.get_verb, self.get_uri)\n"),
    (CL, _INIT_POST, "        return self._initial_request(self.get_verb, self.submit_uri)\n"),
])
T("C07", "twin-initial-request-positional", CL, _INIT_POST,
  "        headers = {b\"User-Agent\": self.user_agent.encode(), b\"Host\": self.host_header.encode()}\n        verb, uri = self.submit_verb, bytes(self.submit_uri, \"utf-8\")\n        return HttpRequest(verb, uri, {}, headers, b\"\")\n")
M("C07", "initial-request-positional-uri-verb-swapped", CL, _INIT_POST,
  "        headers = {b\"User-Agent\": self.user_agent.encode(), b\"Host\": self.host_header.encode()}\n        verb, uri = self.submit_verb, bytes(self.submit_uri, \"utf-8\")\n        return HttpRequest(uri, verb, {}, headers, b\"\")\n", "C07.R4")
M("C07", "initial-post-request-get-uri", CL, "            uri=self.submit_uri.encode(),\n", "            uri=self.get_uri.encode(),\n", "C07.R4")

# run(): the decoder is built into a local first, attributes copied from the local
_RUN_LOCAL = [
    (CL, _RUN_C2, "        c2http = C2Http(bconfig, self.aes_key, self.hmac_key)\n        self.c2http = c2http\n"),
    (CL, _RUN_GETVERB, "        self.get_verb = c2http.get_verb\n"),
]
T("C07", "twin-run-decoder-local", CL, "", "", edits=_RUN_LOCAL + [
    (CL, _RUN_SUBMIT, "        self.submit_verb, self.submit_uri = c2http.submit_verb, c2http.submit_uri.decode()\n")])
M("C07", "run-decoder-local-wrong-verb", CL, "", "", "C07.R4", edits=_RUN_LOCAL + [
    (CL, _RUN_SUBMIT, "        self.submit_verb, self.submit_uri = c2http.get_verb, c2http.submit_uri.decode()\n")])
M("C07", "run-decoder-keys-swapped", CL, _RUN_C2, "        self.c2http = C2Http(bconfig, self.hmac_key, self.aes_key)\n", "C07.R4")
T("C07", "twin-run-decoder-from-aes-rand", CL, _RUN_C2, "        self.c2http = C2Http(self.bconfig, aes_rand=self.aes_rand)\n")
M("C07", "run-submit-uri-bytes-then-encoded", CL, "        self.submit_uri: str = self.c2http.submit_uri.decode()\n", "        self.submit_uri = self.c2http.submit_uri\n", "C07.R4")

# =============================================================================================== R4: decoder
T("C07", "twin-decoder-else-branch", C2, "            elif isinstance(c2data, ServerC2Data):\n                yield TaskPacket(plaintext)\n", "            else:\n                yield TaskPacket(plaintext)\n")
_DEC_CLS = (
    "        packet_class = {a} if isinstance(c2data, ClientC2Data) else {b}\n"
    "        for enc_packet in c2data.iter_encrypted_packets():\n"
    "            plaintext = decrypt_packet(enc_packet, verify=self.verify_hmac, **keys._asdict())\n"
    "            yield packet_class(plaintext)\n"
)
T("C07", "twin-decoder-class-selected-once", C2, _DEC_LOOP, _DEC_CLS.format(a="CallbackPacket", b="TaskPacket"))
M("C07", "decoder-class-selected-once-swapped", C2, _DEC_LOOP, _DEC_CLS.format(a="TaskPacket", b="CallbackPacket"), "C07.R4")
_DEC_FLAG = (
    "        from_client = isinstance(c2data, ClientC2Data)\n"
    "        for enc_packet in c2data.iter_encrypted_packets():\n"
    "            plaintext = decrypt_packet(enc_packet, verify=self.verify_hmac, **keys._asdict())\n"
    "            if {neg}from_client:\n"
    "                yield TaskPacket(plaintext)\n"
    "                continue\n"
    "            yield CallbackPacket(plaintext)\n"
)
T("C07", "twin-decoder-flag-continue", C2, _DEC_LOOP, _DEC_FLAG.format(neg="not "))
M("C07", "decoder-flag-continue-inverted", C2, _DEC_LOOP, _DEC_FLAG.format(neg=""), "C07.R4")
T("C07", "twin-decoder-chained-recover", C2, _DEC_HEAD, "        c2data = self.get_transform_for_http(http).recover(http)\n")
T("C07", "twin-decoder-bound-method", C2, _DEC_HEAD, "        recover = self.get_transform_for_http(http).recover\n        c2data = recover(http)\n")
M("C07", "decoder-recover-fixed-transform", C2, _DEC_HEAD, "        transform = self.transform_get if isinstance(http, HttpRequest) else self.transform_response\n        c2data = transform.recover(http)\n", "C07.R4")
_DEC_META_T = (
    "        priv = self.priv\n"
    "        encrypted = c2data.metadata\n"
    "        if not (not encrypted or not priv):\n"
    "            metadata = self.metadata_cache.get(c2data.metadata)\n"
    "            if metadata is None:\n"
    "                metadata = decrypt_metadata(private_key=priv, encrypted_metadata=encrypted)\n"
)
T("C07", "twin-decoder-priv-local-de-morgan", C2, _DEC_META, _DEC_META_T)
M("C07", "decoder-priv-guard-dropped", C2, _DEC_META, _DEC_META_T.replace("        if not (not encrypted or not priv):\n", "        if not (not encrypted):\n"), "C07.R4")
M("C07", "decoder-metadata-after-packets", C2, "", "", "C07.R4", edits=[
    (C2, "            yield metadata\n", "            pass\n"),
    (C2, _DEC_LOOP, _DEC_LOOP + "        if c2data.metadata and self.priv:\n            yield self.metadata_cache[c2data.metadata]\n"),
])
M("C07", "decoder-metadata-never-yielded", C2, "            yield metadata\n", "            logger.debug(\"metadata: %r\", metadata)\n", "C07.R4")
M("C07", "decoder-keys-setdefault-after-yield", C2, "            yield metadata\n", "            yield metadata\n            self.metadata_cache.setdefault(c2data.metadata, metadata)\n", "C07.R4")

# =============================================================================================== more shapes
# key length check through a new static helper and a new module-level size constant (both normalised away)
_KEY_HELPER = [
    (C2, "class C2Http:\n", "_KEY_SIZE = 16\n\n\nclass C2Http:\n"),
    (C2, "    def get_transform_for_http(self, http: Union[HttpRequest, HttpResponse, bytes]) -> HttpDataTransform:\n",
     "    @staticmethod\n    def _check_key(name, key):\n        if key is not None and len(key) != _KEY_SIZE:\n            raise ValueError(f\"{name} key must be 16 bytes, got: {key!r}\")\n\n"
     "    def get_transform_for_http(self, http: Union[HttpRequest, HttpResponse, bytes]) -> HttpDataTransform:\n"),
    (C2, _AES_LEN, "        self._check_key(\"AES\", self.aes_key)\n"),
]
T("C07", "twin-key-length-helper-constant", C2, "", "", edits=_KEY_HELPER + [(C2, _HMAC_LEN, "        self._check_key(\"HMAC\", self.hmac_key)\n")])
M("C07", "key-length-helper-hmac-unchecked", C2, "", "", "C07.R3", edits=_KEY_HELPER + [(C2, _HMAC_LEN, "")])
# router: attributes read into locals first, bytes handled by re-entering the router
T("C07", "twin-router-hoisted-attributes", C2, _ROUTER,
  "        if isinstance(http, bytes):\n            return self.get_transform_for_http(parse_raw_http(http))\n"
  "        get_verb, get_uris = self.get_verb, self.get_uris\n"
  "        submit_verb = self.submit_verb\n"
  "        submit_uri = self.submit_uri\n"
  "        if isinstance(http, HttpRequest):\n"
  "            if http.method == get_verb and http.uri.startswith(get_uris):\n"
  "                return self.transform_get\n"
  "            if submit_verb == http.method and http.uri.startswith(submit_uri):\n"
  "                return self.transform_submit\n"
  "        elif isinstance(http, HttpResponse):\n"
  "            return self.transform_response\n"
  "        raise ValueError(f\"Possible unrelated HTTP Request or Response, cannot find correct transform for {http!r}\")\n")
# decoder: one yield, conditional expression on the packet
_DEC_IFEXP = (
    "        for enc_packet in c2data.iter_encrypted_packets():\n"
    "            plaintext = decrypt_packet(enc_packet, verify=self.verify_hmac, **keys._asdict())\n"
    "            yield {a}(plaintext) if isinstance(c2data, ClientC2Data) else {b}(plaintext)\n"
)
T("C07", "twin-decoder-conditional-yield", C2, _DEC_LOOP, _DEC_IFEXP.format(a="CallbackPacket", b="TaskPacket"))
M("C07", "decoder-conditional-yield-swapped", C2, _DEC_LOOP, _DEC_IFEXP.format(a="TaskPacket", b="CallbackPacket"), "C07.R4")
# decoder: the packet loop moved into a new generator helper
T("C07", "twin-decoder-packets-helper", C2, "", "", edits=[
    (C2, "    def iter_recover_http(\n",
     "    def _iter_packets(self, c2data, keys):\n"
     "        for enc_packet in c2data.iter_encrypted_packets():\n"
     "            plaintext = decrypt_packet(enc_packet, verify=self.verify_hmac, **keys._asdict())\n"
     "            if isinstance(c2data, ClientC2Data):\n"
     "                yield CallbackPacket(plaintext)\n"
     "            elif isinstance(c2data, ServerC2Data):\n"
     "                yield TaskPacket(plaintext)\n\n"
     "    def iter_recover_http(\n"),
    (C2, "        # decrypt c2data.output, if any\n" + _DEC_LOOP, "        yield from self._iter_packets(c2data, keys)\n"),
])
# client: keyword call, the initial request bound to a local in its builder
T("C07", "twin-client-keywords-and-locals", CL, "", "", edits=[
    (CL, _GET, "        req = self.c2http.transform_get.transform(\n            request=self._initial_get_request(),\n            c2data=C2Data(metadata=encrypt_metadata(public_key=self.c2http.pub, metadata=self.metadata)),\n        )\n"),
    (CL, _INIT_GET, "        verb = self.get_verb\n        initial = HttpRequest(\n            method=verb,\n            uri=self.get_uri.encode(\"utf-8\"),\n"
     "            headers={b\"User-Agent\": self.user_agent.encode(), b\"Host\": self.host_header.encode()},\n            params={},\n            body=b\"\",\n        )\n        return initial\n"),
])
# the response is decoded by a fresh decoder (loses the session state of the client's decoder)
M("C07", "client-fresh-decoder-for-response", CL, "            for packet in self.c2http.iter_recover_http(req):\n",
  "            for packet in C2Http(self.bconfig, aes_key=self.aes_key, hmac_key=self.hmac_key).iter_recover_http(req):\n", "C07.R4")
M("C07", "priv-not-stored", C2, "        self.priv = rsa_private_key\n", "        self.priv = None\n", "C07.R2")
# the client reads its verbs / submit URI from the very settings the decoder builds its attributes from
_RUN_SETTINGS = (
    "        self.submit_verb: bytes = self.bconfig.settings[\"{verb}\"].encode()\n"
    "        self.submit_uri: str = self.bconfig.settings[\"SETTING_SUBMITURI\"]\n"
)
T("C07", "twin-run-verbs-from-settings", CL, _RUN_SUBMIT, _RUN_SETTINGS.format(verb="SETTING_C2_VERB_POST"))
M("C07", "run-verbs-from-wrong-setting", CL, _RUN_SUBMIT, _RUN_SETTINGS.format(verb="SETTING_C2_VERB_GET"), "C07.R4")
M("C07", "run-submit-verb-text", CL, "        self.submit_verb: bytes = self.c2http.submit_verb\n", "        self.submit_verb: str = self.c2http.submit_verb.decode()\n", "C07.R4")

# =============================================================================================== R8: the router is complete
# (a request with the verb and the URI prefix of a route gets that route whatever the tests on the other route say - the
# two verbs may be the same string - and a response gets the response transform)
# 'dispatch on the verb first': correct when the two verb tests are independent statements ...
_R8_VERB_FIRST = (
    "        http = parse_raw_http(http) if isinstance(http, bytes) else http\n"
    "\n"
    "        if isinstance(http, HttpResponse):\n"
    "            return self.transform_response\n"
    "\n"
    "        if isinstance(http, HttpRequest):\n"
    "            if http.method == self.{first}_verb:\n"
    "                if http.uri.startswith(self.{first_uri}):\n"
    "                    return self.transform_{first}\n"
    "            {kw} http.method == self.{second}_verb:\n"
    "                if http.uri.startswith(self.{second_uri}):\n"
    "                    return self.transform_{second}\n"
)
T("C07", "twin-router-verb-first-independent", C2, _ROUTER, _R8_VERB_FIRST.format(first="get", first_uri="get_uris", second="submit", second_uri="submit_uri", kw="if") + _RAISE)
T("C07", "twin-router-verb-first-submit-first", C2, _ROUTER, _R8_VERB_FIRST.format(first="submit", first_uri="submit_uri", second="get", second_uri="get_uris", kw="if") + _RAISE)
# ... and broken when the second verb test is the `elif` of the first: with `set verb` making both verbs equal the second
# route is never tried (here the mirror image of the seeded change: the check-in route is the one that is lost)
M("C07", "router-verb-first-elif-get-lost", C2, _ROUTER, _R8_VERB_FIRST.format(first="submit", first_uri="submit_uri", second="get", second_uri="get_uris", kw="elif") + _RAISE, "C07.R8")
# the URI test of the first verb stays in the condition, only the second route is nested: equivalent to the flat chain
T("C07", "twin-router-second-route-nested", C2,
  "            elif http.method == self.submit_verb and http.uri.startswith(self.submit_uri):\n                return self.transform_submit\n",
  "            elif http.method == self.submit_verb:\n                if http.uri.startswith(self.submit_uri):\n                    return self.transform_submit\n")
# guard clauses: a request with the http-get verb and another URI is rejected before the http-post route is tried
M("C07", "router-guard-clauses-early-reject-on-get-verb", C2, _ROUTER, _R1_GUARDS.replace(
    "        if http.method != self.submit_verb or not http.uri.startswith(self.submit_uri):\n",
    "        if http.method == self.get_verb:\n            raise ValueError(f\"unknown check-in URI {http.uri!r}\")\n"
    "        if http.method != self.submit_verb or not http.uri.startswith(self.submit_uri):\n"), "C07.R8")
# single exit: the placeholder survives when the http-get verb matched and its URI did not
M("C07", "router-single-exit-verb-elif", C2, _ROUTER, _R1_SINGLE.format(tail=_R1_SINGLE_OK).replace(
    "        if is_request and http.method == self.get_verb and http.uri.startswith(self.get_uris):\n            selected = self.transform_get\n",
    "        if is_request and http.method == self.get_verb:\n            if http.uri.startswith(self.get_uris):\n                selected = self.transform_get\n"), "C07.R8")
# flags: the http-post flag additionally demands that the verb is not the http-get verb
M("C07", "router-conditional-expression-post-excludes-get-verb", C2, _ROUTER,
  _R1_TERNARY.format(post="http.method != self.get_verb and http.method == self.submit_verb and http.uri.startswith(self.submit_uri)"), "C07.R8")
# routes told apart by the URI first: a submit URI under the http-get verb test only
M("C07", "router-uri-first-submit-needs-get-verb-mismatch", C2,
  "            elif http.method == self.submit_verb and http.uri.startswith(self.submit_uri):\n",
  "            elif http.method == self.get_verb:\n                pass\n            elif http.method == self.submit_verb and http.uri.startswith(self.submit_uri):\n", "C07.R8")
# everything that is not a request is rejected before the response test
M("C07", "router-response-unreachable", C2, _ROUTER, _R1_GUARDS.replace(
    "        if isinstance(http, HttpResponse):\n            return self.transform_response\n", "").replace(
    "        return self.transform_submit\n",
    "        if isinstance(http, HttpResponse):\n            return self.transform_response\n        return self.transform_submit\n"), "C07.R8")

# =============================================================================================== R9: the whole transformed request is sent
# (every field of the HttpRequest the transform returned - method, uri, params, headers, body - flows into the one call
# that puts it on the wire: a profile may place the metadata / id / output in any of uri, params, headers and body)
_SEND_GET = (
    "            response = httpx.request(\n"
    "                req.method, url, headers=req.headers, params=params, content=req.body, verify=self.verify\n"
    "            )\n"
    "            response.raise_for_status()\n"
    "        except httpx.RequestError as exc:\n"
    "            self.logger.error(\"An error occurred while requesting %r : %r\", exc.request.url, exc)\n"
    "        except httpx.HTTPStatusError as exc:\n"
    "            self.logger.error(\n"
    "                \"HttpStatusError, response %s while requesting %r.\", exc.response.status_code, exc.request.url\n"
    "            )\n"
    "        else:\n"
)
_SEND_POST = (
    "        # Construct url for callback\n"
    "        url = urllib.parse.urljoin(self.base_url, req.uri.decode())\n"
    "        params = {k.decode(): v.decode() for k, v in req.params.items()}\n"
    "        try:\n"
    "            response = httpx.request(\n"
    "                req.method, url, headers=req.headers, params=params, content=req.body, verify=self.verify\n"
    "            )\n"
)
_SEND_TAIL = _SEND_GET[_SEND_GET.index("            response.raise_for_status()"):]
# the callback is sent without the query parameters the transform produced ('the id goes into the URL anyway')
M("C07", "callback-params-not-sent", CL, _SEND_POST, _SEND_POST.replace(", params=params,", ","), "C07.R9")
# the check-in is sent with a fixed set of headers instead of the transformed ones (a `header "Cookie"` placement is lost)
M("C07", "checkin-static-headers-sent", CL, _SEND_GET,
  _SEND_GET.replace("headers=req.headers,", "headers={\"User-Agent\": self.user_agent, \"Host\": self.host_header},"), "C07.R9")
# the check-in goes to the configured URI, not to the URI of the transformed request (a `uri-append` placement is lost)
M("C07", "checkin-url-from-configured-uri", CL,
  "        url = urllib.parse.urljoin(self.base_url, req.uri.decode())\n        params = {k.decode(): v.decode() for k, v in req.params.items()}\n        try:\n            self.logger.debug(",
  "        url = urllib.parse.urljoin(self.base_url, self.get_uri)\n        params = {k.decode(): v.decode() for k, v in req.params.items()}\n        try:\n            self.logger.debug(", "C07.R9")
# a body only 'when the verb has one': located, the body is not passed on the GET branch -> two send calls, judged on
# the widest one; the narrower one is where the missing field goes - not a violation, the rule is undecided or silent
T("C07", "twin-send-prepared-request", CL, _SEND_GET,
  "            prepared = httpx.Request(req.method, url, headers=req.headers, params=params, content=req.body)\n"
  "            with httpx.Client(verify=self.verify) as session:\n"
  "                response = session.send(prepared)\n" + _SEND_TAIL)
T("C07", "twin-send-keyword-dictionary", CL, _SEND_GET,
  "            options = dict(headers=req.headers, params=params, verify=self.verify)\n"
  "            options[\"content\"] = req.body\n"
  "            response = httpx.request(req.method, url, **options)\n" + _SEND_TAIL)
T("C07", "twin-send-unpacked-request", CL, _SEND_POST,
  "        method, uri, query, headers, body = req.method, req.uri, req.params, req.headers, req.body\n"
  "        url = urllib.parse.urljoin(self.base_url, uri.decode())\n"
  "        params = {k.decode(): v.decode() for k, v in query.items()}\n"
  "        try:\n"
  "            response = httpx.request(method, url, headers=headers, params=params, content=body, verify=self.verify)\n")
# the sending block of both methods moved into one new method that is given the whole request
_SEND_HELPER = (
    "    def _exchange(self, req: HttpRequest) -> httpx.Response:\n"
    "        url = urllib.parse.urljoin(self.base_url, req.uri.decode())\n"
    "        params = {k.decode(): v.decode() for k, v in req.params.items()}\n"
    "        response = httpx.request(req.method, url, headers=req.headers, params=params, content=req.body, verify=self.verify)\n"
    "        response.raise_for_status()\n"
    "        return response\n\n"
)
T("C07", "twin-send-extracted-method", CL, "", "", edits=[
    (CL, "    def get_task(self) -> Optional[TaskPacket]:\n", _SEND_HELPER + "    def get_task(self) -> Optional[TaskPacket]:\n"),
    (CL, _SEND_GET, "            response = self._exchange(req)\n" + _SEND_TAIL[len("            response.raise_for_status()\n"):]),
    (CL, _SEND_POST, "        try:\n            self._exchange(req)\n"),
])
# ... and the same extraction with a method that builds the URL from the request but takes headers from the client
M("C07", "send-extracted-method-own-headers", CL, "", "", "C07.R9", edits=[
    (CL, "    def get_task(self) -> Optional[TaskPacket]:\n",
     _SEND_HELPER.replace("headers=req.headers,", "headers={b\"User-Agent\": self.user_agent.encode()},") + "    def get_task(self) -> Optional[TaskPacket]:\n"),
    (CL, _SEND_GET, "            response = self._exchange(req)\n" + _SEND_TAIL[len("            response.raise_for_status()\n"):]),
    (CL, _SEND_POST, "        try:\n            self._exchange(req)\n"),
])

# =============================================================================================== R13: the transformed request is sent as the transform left it
# (the transform performs the profile's dynamic placements - `header "<name>"` / `parameter "<name>"` with free names - so
# nothing may replace / remove an entry of the request's headers / params between the transform and the send call;
# client-side defaults belong into the initial request handed to the transform)
_PRE_GET = (
    "        url = urllib.parse.urljoin(self.base_url, req.uri.decode())\n"
    "        params = {k.decode(): v.decode() for k, v in req.params.items()}\n"
    "        try:\n"
    "            self.logger.debug("
)
_SEND_POST_CALL = (
    "            response = httpx.request(\n"
    "                req.method, url, headers=req.headers, params=params, content=req.body, verify=self.verify\n"
    "            )\n"
)
# a copy of the headers gets a fixed `Connection: close` and is sent instead ('do not keep the socket open')
M("C07", "callback-connection-close-on-header-copy", CL, _SEND_POST,
  _SEND_POST.replace("        try:\n", "        headers = dict(req.headers)\n        headers[b\"Connection\"] = b\"close\"\n        try:\n").replace("headers=req.headers", "headers=headers"),
  "C07.R13")
# entries after `**req.headers` in the dict display of the send call win over the transformed ones
M("C07", "checkin-accept-encoding-overrides", CL, _SEND_GET,
  _SEND_GET.replace("headers=req.headers,", "headers={**req.headers, b\"Accept-Encoding\": b\"identity\"},"), "C07.R13")
# a cache-buster query parameter written into the decoded parameters (a `parameter "t"` placement of the id is lost)
M("C07", "callback-cache-buster-parameter", CL, _SEND_POST,
  _SEND_POST.replace("        try:\n", "        params[\"t\"] = str(self.counter)\n        try:\n"), "C07.R13")
# in-place update of the transformed headers with the client's host header
M("C07", "checkin-update-host-after-transform", CL, _PRE_GET,
  "        req.headers.update({b\"Host\": self.host_header.encode()})\n" + _PRE_GET, "C07.R13")
# hop-by-hop header dropped from the transformed request
M("C07", "callback-pop-header-after-transform", CL, _SEND_POST,
  _SEND_POST.replace("        try:\n", "        req.headers.pop(b\"Content-Length\", None)\n        try:\n"), "C07.R13")
# the stamping lives in a method with a branch (not an expression helper) that is handed the request and returns it
M("C07", "checkin-stamped-in-branching-helper", CL, "", "", "C07.R13", edits=[
    (CL, "    def get_task(self) -> Optional[TaskPacket]:\n",
     "    def _stamp(self, req: HttpRequest) -> HttpRequest:\n"
     "        if self.host_header:\n"
     "            req.headers[b\"Host\"] = self.host_header.encode()\n"
     "        for name in (b\"Accept\",):\n"
     "            req.headers[name] = b\"*/*\"\n"
     "        return req\n\n"
     "    def get_task(self) -> Optional[TaskPacket]:\n"),
    (CL, _PRE_GET, "        req = self._stamp(req)\n" + _PRE_GET),
])
# twins: the transform keeps the last word
T("C07", "twin-setdefault-after-transform", CL, _PRE_GET, "        req.headers.setdefault(b\"User-Agent\", self.user_agent.encode())\n" + _PRE_GET)
T("C07", "twin-store-only-when-absent", CL, _SEND_POST,
  _SEND_POST.replace("        try:\n", "        if b\"User-Agent\" not in req.headers:\n            req.headers[b\"User-Agent\"] = self.user_agent.encode()\n        try:\n"))
T("C07", "twin-header-copy-sent-unchanged", CL, _SEND_POST,
  _SEND_POST.replace("        try:\n", "        headers = dict(req.headers)\n        try:\n").replace("headers=req.headers", "headers=headers"))
T("C07", "twin-defaults-before-transformed-headers", CL, _SEND_GET,
  _SEND_GET.replace("headers=req.headers,", "headers={b\"User-Agent\": self.user_agent.encode(), **req.headers},"))
T("C07", "twin-params-decoded-in-loop", CL, _SEND_POST,
  _SEND_POST.replace("        params = {k.decode(): v.decode() for k, v in req.params.items()}\n",
                     "        params = {}\n        for k, v in req.params.items():\n            params[k.decode()] = v.decode()\n"))
T("C07", "twin-params-rekeyed-in-place-copy", CL, _SEND_POST,
  _SEND_POST.replace("        try:\n", "        for k in list(params):\n            params[k] = str(params[k])\n        try:\n"))

# =============================================================================================== R10: the parser cuts at the first separator
# (body = everything after the first blank line, header value = everything after the first `: ` of its line, header name =
# the text before it: body and header values are payload and may contain the separator again)
_HDR = "        key, _, value = header.partition(b\": \")\n        headers[key] = value\n"
_BODY = "    header_data, _, body = data.partition(b\"\\r\\n\\r\\n\")\n"
# the line is cut at its LAST `: ` - the name swallows the front of a value that contains the separator
M("C07", "header-cut-at-last-separator", C2, _HDR, "        key, _, value = header.rpartition(b\": \")\n        headers[key] = value\n", "C07.R10")
# index 1 of an unlimited split: the value ends at its own first `: `
M("C07", "header-value-second-piece", C2, _HDR,
  "        pieces = header.split(b\": \")\n        key = pieces[0]\n        value = pieces[1] if len(pieces) > 1 else b\"\"\n        headers[key] = value\n", "C07.R10")
# the body is the second CRLFCRLF-separated block: binary output that contains a blank line is truncated
M("C07", "body-second-block", C2, _BODY,
  "    blocks = data.split(b\"\\r\\n\\r\\n\")\n    header_data = blocks[0]\n    body = blocks[1] if len(blocks) > 1 else b\"\"\n", "C07.R10")
M("C07", "body-after-last-blank-line", C2, _BODY, "    header_data, _, body = data.rpartition(b\"\\r\\n\\r\\n\")\n", "C07.R10")
# the same cuts spelled with a limited split / find + slices
T("C07", "twin-header-split-limit-one", C2, _HDR,
  "        pieces = header.split(b\": \", 1)\n        key = pieces[0]\n        value = pieces[1] if len(pieces) == 2 else b\"\"\n        headers[key] = value\n")
T("C07", "twin-header-find-and-slice", C2, _HDR,
  "        at = header.find(b\": \")\n        if at < 0:\n            headers[header] = b\"\"\n            continue\n"
  "        headers[header[:at]] = header[at + 2 :]\n")
T("C07", "twin-body-split-limit-one", C2, _BODY,
  "    blocks = data.split(b\"\\r\\n\\r\\n\", 1)\n    header_data = blocks[0]\n    body = blocks[1] if len(blocks) == 2 else b\"\"\n")
T("C07", "twin-header-unpacked-later", C2, _HDR,
  "        cut = header.partition(b\": \")\n        key = cut[0]\n        value = cut[-1]\n        headers[key] = value\n")

# ------------------------------------------------------------------------------------------------ R11: the appended / prepended literal is taken off by position
_REC_APPEND = (
    "            if step == \"append\":\n"
    "                if isinstance(step_val, bytes):\n"
    "                    step_val = len(step_val)\n"
    "                assert isinstance(step_val, int)\n"
    "                data = data[: len(data) - step_val]\n"
)
_REC_PREPEND = (
    "            elif step == \"prepend\":\n"
    "                if isinstance(step_val, bytes):\n"
    "                    step_val = len(step_val)\n"
    "                assert isinstance(step_val, int)\n"
    "                data = data[step_val:]\n"
)
_REC_APPEND_BY = (
    "            if step == \"append\":\n"
    "                if isinstance(step_val, bytes):\n"
    "                    data = {cut}\n"
    "                else:\n"
    "                    assert isinstance(step_val, int)\n"
    "                    data = data[: len(data) - step_val]\n"
)
_REC_PREPEND_BY = (
    "            elif step == \"prepend\":\n"
    "                if isinstance(step_val, bytes):\n"
    "                    data = {cut}\n"
    "                else:\n"
    "                    assert isinstance(step_val, int)\n"
    "                    data = data[step_val:]\n"
)
# the literal's bytes used as a SET (strip family), on the other side than the seeded change / on both ends
M("C07", "recover-prepend-lstrip-literal", C2, _REC_PREPEND, _REC_PREPEND_BY.format(cut="data.lstrip(step_val)"), "C07.R11")
M("C07", "recover-append-strip-both-ends", C2, _REC_APPEND, _REC_APPEND_BY.format(cut="data.strip(step_val)"), "C07.R11")
M("C07", "recover-append-slice-then-rstrip-temporary", C2, _REC_APPEND,
  "            if step == \"append\":\n"
  "                if isinstance(step_val, bytes):\n"
  "                    tail = step_val[-1:]\n"
  "                    step_val = len(step_val) - 1\n"
  "                    data = data.rstrip(tail)\n"
  "                assert isinstance(step_val, int)\n"
  "                data = data[: len(data) - step_val]\n", "C07.R11")
# cut at the wrong occurrence of the literal / every occurrence rewritten: the payload may contain the literal
M("C07", "recover-append-partition-first-occurrence", C2, _REC_APPEND, _REC_APPEND_BY.format(cut="data.partition(step_val)[0]"), "C07.R11")
M("C07", "recover-append-unlimited-split", C2, _REC_APPEND, _REC_APPEND_BY.format(cut="data.split(step_val)[0]"), "C07.R11")
M("C07", "recover-prepend-rpartition-last-occurrence", C2, _REC_PREPEND, _REC_PREPEND_BY.format(cut="data.rpartition(step_val)[2]"), "C07.R11")
M("C07", "recover-append-replace-all", C2, _REC_APPEND, _REC_APPEND_BY.format(cut="data.replace(step_val, b\"\")"), "C07.R11")
M("C07", "recover-prepend-removesuffix-wrong-end", C2, _REC_PREPEND, _REC_PREPEND_BY.format(cut="data.removesuffix(step_val)"), "C07.R11")
# twins: exact affix removal / length-based slices in other spellings
T("C07", "twin-recover-append-removesuffix", C2, _REC_APPEND, _REC_APPEND_BY.format(cut="data.removesuffix(step_val)"))
T("C07", "twin-recover-prepend-removeprefix", C2, _REC_PREPEND, _REC_PREPEND_BY.format(cut="data.removeprefix(step_val)"))
T("C07", "twin-recover-append-slice-per-kind", C2, _REC_APPEND, _REC_APPEND_BY.format(cut="data[: len(data) - len(step_val)]"))
T("C07", "twin-recover-affix-count-local", C2, _REC_APPEND,
  "            if step == \"append\":\n"
  "                count = len(step_val) if isinstance(step_val, bytes) else step_val\n"
  "                assert isinstance(count, int)\n"
  "                data = data[: len(data) - count]\n")

# ------------------------------------------------------------------------------------------------ R12: a missing session key is derived from fresh metadata
_DERIVE_TEST = "                if not all([self.beacon_keys.aes_key, self.beacon_keys.hmac_key]):\n"
_DERIVE = (
    "                    aes_key, hmac_key = derive_aes_hmac_keys(metadata.aes_rand)\n"
    "                    self.beacon_keys = BeaconKeys(aes_key, hmac_key)\n"
)
M("C07", "derive-only-when-aes-key-missing", C2, _DERIVE_TEST, "                if not self.beacon_keys.aes_key:\n", "C07.R12")
M("C07", "derive-only-when-both-none", C2, _DERIVE_TEST, "                if self.beacon_keys.aes_key is None and self.beacon_keys.hmac_key is None:\n", "C07.R12")
M("C07", "derive-only-when-hmac-missing-alias", C2, _DERIVE_TEST, "                current = self.beacon_keys\n                if current.hmac_key is None:\n", "C07.R12")
M("C07", "derive-none-not-in-both", C2, _DERIVE_TEST, "                if None not in (self.beacon_keys.aes_key, self.beacon_keys.hmac_key):\n", "C07.R12")
M("C07", "derived-keys-swapped", C2, _DERIVE, _DERIVE.replace("BeaconKeys(aes_key, hmac_key)", "BeaconKeys(hmac_key, aes_key)"), "C07.R12")
M("C07", "derived-keys-unpacked-in-wrong-order", C2, _DERIVE, _DERIVE.replace("aes_key, hmac_key = derive", "hmac_key, aes_key = derive"), "C07.R12")
T("C07", "twin-derive-is-none-or", C2, _DERIVE_TEST, "                if self.beacon_keys.aes_key is None or self.beacon_keys.hmac_key is None:\n")
T("C07", "twin-derive-none-in-tuple", C2, _DERIVE_TEST, "                if None in (self.beacon_keys.aes_key, self.beacon_keys.hmac_key):\n")
T("C07", "twin-derive-not-and-alias", C2, _DERIVE_TEST, "                current = self.beacon_keys\n                if not (current.aes_key and current.hmac_key):\n")
T("C07", "twin-derive-complete-flag", C2, _DERIVE_TEST,
  "                complete = bool(self.beacon_keys.aes_key) and bool(self.beacon_keys.hmac_key)\n                if not complete:\n")
T("C07", "twin-derive-from-aes-rand-classmethod", C2, _DERIVE, "                    self.beacon_keys = BeaconKeys.from_aes_rand(metadata.aes_rand)\n")
T("C07", "twin-derive-keyword-fields", C2, _DERIVE,
  "                    derived = derive_aes_hmac_keys(metadata.aes_rand)\n                    self.beacon_keys = BeaconKeys(hmac_key=derived[1], aes_key=derived[0])\n")

# ------------------------------------------------------------------------------------------------ R14: a check-in yields its metadata whether or not it is cached
_MD_TEST = "        if c2data.metadata and self.priv:\n"
_MD_LOOKUP = (
    "            metadata = self.metadata_cache.get(c2data.metadata)\n"
    "            if metadata is None:\n"
)
_MD_YIELD = (
    "                    logging.info(\"Derived AES + HMAC keys from %r\", metadata)\n"
    "            yield metadata\n"
)
_MD_BLOCK_HEAD = _MD_TEST + _MD_LOOKUP
_MD_DEF = "    def iter_recover_http(\n        self, http: Union[bytes, HttpRequest, HttpResponse], keys: Optional[BeaconKeys] = None\n    ) -> Iterator[C2Packet]:\n"
# the yield slips into the cache-miss branch: a repeated check-in is decoded to nothing
M("C07", "metadata-yielded-only-when-freshly-decrypted", C2, _MD_YIELD, _MD_YIELD.replace("            yield metadata\n", "                yield metadata\n"), "C07.R14")
# the whole block is skipped for a blob that is already cached
M("C07", "metadata-block-skipped-when-cached", C2, _MD_TEST, "        if c2data.metadata and self.priv and c2data.metadata not in self.metadata_cache:\n", "C07.R14")
# `in` test with an early `continue`-like exit of the block
M("C07", "metadata-cached-branch-without-yield", C2, _MD_BLOCK_HEAD,
  "        if c2data.metadata and self.priv and c2data.metadata in self.metadata_cache:\n"
  "            logging.debug(\"metadata already known\")\n"
  "        elif c2data.metadata and self.priv:\n" + _MD_LOOKUP, "C07.R14")
# generator helper whose cache-hit branch yields nothing (bare return instead of the seed's `return <value>`)
_MD_HELPER = (
    "    def _cached_or_decrypted(self, blob):\n"
    "        cached = self.metadata_cache.get(blob)\n"
    "        if cached is not None:\n"
    "{hit}"
    "        metadata = decrypt_metadata(blob, self.priv)\n"
    "        self.metadata_cache[blob] = metadata\n"
    "        if not all([self.beacon_keys.aes_key, self.beacon_keys.hmac_key]):\n"
    "            aes_key, hmac_key = derive_aes_hmac_keys(metadata.aes_rand)\n"
    "            self.beacon_keys = BeaconKeys(aes_key, hmac_key)\n"
    "        yield metadata\n"
    "\n"
)
_MD_WHOLE = (
    _MD_BLOCK_HEAD +
    "                metadata = decrypt_metadata(c2data.metadata, self.priv)\n"
    "                self.metadata_cache[c2data.metadata] = metadata\n"
    "                # if we do not have an AES key or HMAC key yet, we derive it.\n"
    "                if not all([self.beacon_keys.aes_key, self.beacon_keys.hmac_key]):\n"
    "                    aes_key, hmac_key = derive_aes_hmac_keys(metadata.aes_rand)\n"
    "                    self.beacon_keys = BeaconKeys(aes_key, hmac_key)\n" + _MD_YIELD
)
M("C07", "metadata-generator-helper-silent-on-hit", C2, "", "", "C07.R14", edits=[
    (C2, _MD_DEF, _MD_HELPER.format(hit="            return\n") + _MD_DEF),
    (C2, _MD_WHOLE, _MD_TEST + "            yield from self._cached_or_decrypted(c2data.metadata)\n"),
])
# twins: the same refactoring done right, other spellings of the lookup
T("C07", "twin-metadata-generator-helper", C2, "", "", edits=[
    (C2, _MD_DEF, _MD_HELPER.format(hit="            yield cached\n            return\n") + _MD_DEF),
    (C2, _MD_WHOLE, _MD_TEST + "            yield from self._cached_or_decrypted(c2data.metadata)\n"),
])
T("C07", "twin-metadata-in-test-else", C2, _MD_WHOLE,
  _MD_TEST +
  "            blob = c2data.metadata\n"
  "            if blob in self.metadata_cache:\n"
  "                metadata = self.metadata_cache[blob]\n"
  "            else:\n"
  "                metadata = decrypt_metadata(blob, self.priv)\n"
  "                self.metadata_cache[blob] = metadata\n"
  "                if not all([self.beacon_keys.aes_key, self.beacon_keys.hmac_key]):\n"
  "                    aes_key, hmac_key = derive_aes_hmac_keys(metadata.aes_rand)\n"
  "                    self.beacon_keys = BeaconKeys(aes_key, hmac_key)\n"
  "            yield metadata\n")
T("C07", "twin-metadata-try-keyerror", C2, _MD_WHOLE,
  _MD_TEST +
  "            try:\n"
  "                metadata = self.metadata_cache[c2data.metadata]\n"
  "            except KeyError:\n"
  "                metadata = decrypt_metadata(c2data.metadata, self.priv)\n"
  "                self.metadata_cache[c2data.metadata] = metadata\n"
  "                if not all([self.beacon_keys.aes_key, self.beacon_keys.hmac_key]):\n"
  "                    aes_key, hmac_key = derive_aes_hmac_keys(metadata.aes_rand)\n"
  "                    self.beacon_keys = BeaconKeys(aes_key, hmac_key)\n"
  "            yield metadata\n")
T("C07", "twin-metadata-yield-in-both-branches", C2, _MD_YIELD,
  "                    logging.info(\"Derived AES + HMAC keys from %r\", metadata)\n"
  "                yield metadata\n"
  "            else:\n"
  "                yield metadata\n")

# ------------------------------------------------------------------------------------------------ R15: the routed uri is the path as it is on the wire
_URI_PATH = "    uri = result.path\n"
_URI_IMPORT = "from urllib.parse import parse_qsl, urlsplit\n"
M("C07", "uri-case-folded", C2, _URI_PATH, "    uri = result.path.lower()\n", "C07.R15")
M("C07", "uri-double-slashes-collapsed", C2, _URI_PATH, "    path = result.path\n    uri = path.replace(b\"//\", b\"/\")\n", "C07.R15")
M("C07", "uri-unquoted-before-split", C2, "", "", "C07.R15", edits=[
    (C2, _URI_IMPORT, "from urllib.parse import parse_qsl, unquote, urlsplit\n"),
    (C2, "    result = urlsplit(uri)\n", "    result = urlsplit(unquote(uri.decode()).encode())\n"),
])
T("C07", "twin-uri-path-inline", C2, "    result = urlsplit(uri)\n    uri = result.path\n", "    result = urlsplit(uri)\n    uri = urlsplit(uri).path\n")
T("C07", "twin-uri-path-via-tuple", C2, _URI_PATH, "    _scheme, _netloc, uri, _query, _fragment = result\n")
T("C07", "twin-uri-tokens-by-index", C2, "    method, uri, _version = parts\n", "    method, uri = parts[0], parts[1]\n")
